"""A tiny abstract interpreter over THIR that decides, for one assignment of truth values to
"operand r is tracked" / "optional operand r is present" / opaque conditions, what an
operation constructor returns: a fresh untracked array, an array with an attached graph
(and which operands it records), or one of its operands unchanged.

Used by R8 (attach-iff-tracked, exhaustive over all assignments) and by R9 (which
constructors attach only when their single operand is tracked)."""

from . import facts as F
from .facts import callee, resolved, strip, ARRAY
from .show import show


class NeedVar(Exception):
    def __init__(self, key, label):
        self.key = key
        self.label = label


class Unclassified(Exception):
    pass


class ReturnExc(Exception):
    def __init__(self, val):
        self.val = val


class V:
    pass


class Bool(V):
    def __init__(self, b):
        self.b = b


class Opt(V):
    def __init__(self, present, inner=None):
        self.present = present
        self.inner = inner


class Ref(V):
    """reference to (or handle of) an operand array; root is a parameter key, or None for a
    locally built constant array"""
    def __init__(self, root):
        self.root = root


class Arr(V):
    def __init__(self, tracked, children, same=None):
        self.tracked = tracked
        self.children = children
        self.same = same      # the operand itself (e.g. `return self.clone()`)


class Clo(V):
    def __init__(self, d, env):
        self.d = d
        self.env = env


class Tup(V):
    def __init__(self, items):
        self.items = items


class Vec(V):
    def __init__(self, items):
        self.items = items


class Unknown(V):
    def __init__(self, why=""):
        self.why = why


class Thunk:
    def __init__(self, expr, env):
        self.expr = expr
        self.env = env
        self.val = None
        self.busy = False


IS_TRACKED_FIELD = "is_tracked"

OPTION = "core::option::Option"


class Eval:
    def __init__(self, facts, assignment, consulted):
        self.facts = facts
        self.asg = assignment
        self.consulted = consulted
        self.depth = 0
        self.assigned = {}      # variables re-assigned on the (concrete) path evaluated so far

    # ------------------------------------------------------------ helpers
    def var(self, key, label):
        if key not in self.asg:
            raise NeedVar(key, label)
        self.consulted.add(key)
        return self.asg[key]

    def force(self, x):
        if isinstance(x, Thunk):
            if x.val is None:
                if x.busy:
                    return Unknown("cyclic")
                x.busy = True
                x.val = self.ev(x.expr, x.env)
                x.busy = False
            return x.val
        return x

    def bind(self, pat, val, env):
        """bind pattern to value; returns False if a refutable pattern does not match"""
        k = pat.get("k")
        if k == "Binding":
            env[pat["v"]] = val
            if pat.get("sub"):
                return self.bind(pat["sub"], val, env)
            return True
        if k in ("Wild", "Missing"):
            return True
        if k in ("Deref", "DerefPattern"):
            return self.bind(pat["sub"], val, env)
        if k == "Leaf":
            v = self.force(val)
            ok = True
            for s in pat["subs"]:
                item = Unknown("tuple field")
                if isinstance(v, Tup) and s["idx"] < len(v.items):
                    item = v.items[s["idx"]]
                if not self.bind(s["pat"], item, env):
                    ok = False
            return ok
        if k == "Variant" and pat.get("adt") == OPTION:
            v = self.force(val)
            if not isinstance(v, Opt):
                raise Unclassified("match on an Option whose presence is not modelled: %s" % type(v).__name__)
            if pat["variant"] == "Some":
                if not v.present:
                    return False
                for s in pat["subs"]:
                    self.bind(s["pat"], v.inner if v.inner is not None else Unknown("some"), env)
                return True
            return not v.present
        if k == "Constant":
            v = self.force(val)
            if isinstance(v, Bool):
                return (pat["value"] == "true") == v.b
            if isinstance(v, Unknown) and pat["value"] in ("true", "false"):
                # an opaque Boolean: a free variable keyed by where it came from
                b = self.var(("cond", "opaque bool %s" % v.why), "opaque Boolean")
                return (pat["value"] == "true") == b
            raise Unclassified("constant pattern on unmodelled value")
        raise Unclassified("pattern kind %s" % k)

    def truth(self, e, env):
        v = self.force(self.ev(e, env))
        if isinstance(v, Bool):
            return v.b
        # opaque condition: a free Boolean variable (keyed by its rendering)
        key = ("cond", show(e)[:200])
        return self.var(key, "opaque condition `%s`" % show(e)[:80])

    def contains_return(self, e):
        """statements that must be executed eagerly: early returns and re-assignments of locals"""
        for n in F.walk(e):
            if n.get("k") == "Return":
                return True
            if n.get("k") == "Assign" and strip(n["l"]).get("k") in ("VarRef", "UpvarRef"):
                return True
        return False

    # ------------------------------------------------------------ evaluation
    def ev(self, e, env):
        e = strip(e)
        if e is None:
            return Unknown("none")
        k = e.get("k")
        if k == "Block":
            env = dict(env)
            for s in e["stmts"]:
                if s["s"] == "let":
                    init = s.get("init")
                    pat = s["pat"]
                    if init is None:
                        continue
                    if pat.get("k") == "Binding" and not pat.get("sub"):
                        if self.contains_return(init):
                            env[pat["v"]] = self.ev(init, env)
                        else:
                            env[pat["v"]] = Thunk(init, env)
                    else:
                        self.bind(pat, Thunk(init, env), env)
                else:
                    if self.contains_return(s["e"]):
                        self.ev(s["e"], env)
            if e.get("e") is not None:
                return self.ev(e["e"], env)
            return Unknown("unit")
        if k in ("VarRef", "UpvarRef"):
            if e["v"] in self.assigned:
                return self.force(self.assigned[e["v"]])
            if e["v"] in env:
                return self.force(env[e["v"]])
            return Unknown("unbound %s" % e["v"])
        if k == "Assign":
            l = strip(e["l"])
            if l.get("k") in ("VarRef", "UpvarRef"):
                self.assigned[l["v"]] = self.force(self.ev(e["r"], env))
            return Unknown("unit")
        if k in ("Borrow", "Deref", "RawBorrow"):
            return self.ev(e["e"], env)
        if k == "Literal":
            lv = F.lit_value(e)
            if isinstance(lv, bool):
                return Bool(lv)
            return Unknown("literal")
        if k == "Unary" and e["op"] == "Not":
            return Bool(not self.truth(e["e"], env))
        if k == "Binary" and e["op"] in ("BitOr", "BitAnd") and e.get("ty") == "bool":
            a, b = self.truth(e["l"], env), self.truth(e["r"], env)
            return Bool((a or b) if e["op"] == "BitOr" else (a and b))
        if k == "LogicalOp":
            l = self.truth(e["l"], env)
            if e["op"] == "And":
                return Bool(l and self.truth(e["r"], env))
            return Bool(l or self.truth(e["r"], env))
        if k == "If":
            cond = strip(e["cond"])
            if cond.get("k") == "Let":
                env2 = dict(env)
                if self.bind(cond["pat"], self.ev(cond["e"], env), env2):
                    return self.ev(e["then"], env2)
                return self.ev(e["else"], env) if e.get("else") is not None else Unknown("unit")
            if self.truth(cond, env):
                return self.ev(e["then"], env)
            return self.ev(e["else"], env) if e.get("else") is not None else Unknown("unit")
        if k == "Match":
            sv = self.ev(e["scrutinee"], env)
            for a in e["arms"]:
                env2 = dict(env)
                if self.bind(a["pat"], sv, env2):
                    if a.get("guard") is not None and not self.truth(a["guard"], env2):
                        continue
                    return self.ev(a["body"], env2)
            raise Unclassified("no match arm applies")
        if k == "Return":
            raise ReturnExc(self.ev(e["e"], env) if e.get("e") is not None else Unknown("unit"))
        if k == "Tuple":
            return Tup([Thunk(x, env) for x in e["fields"]])
        if k == "Array":
            return Vec([Thunk(x, env) for x in e["fields"]])
        if k == "Closure":
            return Clo(e["closure"], env)
        if k == "Adt":
            if e["adt"] == OPTION:
                if e["variant"] == "Some":
                    return Opt(True, Thunk(e["fields"][0]["e"], env))
                return Opt(False)
            return Unknown("adt %s" % e["adt"])
        if k == "Field":
            base = self.force(self.ev(e["e"], env))
            if isinstance(base, Tup) and e["idx"] < len(base.items):
                return self.force(base.items[e["idx"]])
            return Unknown("field")
        if k == "Call":
            return self.call(e, env)
        return Unknown(k)

    def call(self, e, env):
        cal = callee(e)
        res = resolved(e)
        args = e["args"]
        if cal is None:
            return Unknown("indirect call")
        # --- tracking flag reads
        if cal == "core::cell::Cell::<T>::get":
            recv = F.peel(args[0])
            if recv.get("k") == "Field" and recv.get("adt") == ARRAY:
                if recv["name"] == IS_TRACKED_FIELD:
                    base = self.force(self.ev(recv["e"], env))
                    if isinstance(base, Ref):
                        if base.root is None:
                            return Bool(False)      # locally built constant: constructors yield untracked arrays
                        return Bool(self.var(("T", base.root), "tracked(%s)" % base.root))
                    raise Unclassified("is_tracked read on a value that is not an operand: %s" % show(recv["e"])[:80])
                return Unknown("other flag")
            return Unknown("cell get")
        if cal in ("core::ops::deref::Deref::deref", "core::ops::deref::DerefMut::deref_mut", "core::borrow::Borrow::borrow",
                   "core::convert::AsRef::as_ref", "alloc::vec::Vec::<T, A>::as_slice") and len(args) == 1:
            return self.ev(args[0], env)
        # --- Option adaptors
        if cal.startswith("core::option::Option::<"):
            m = cal.split("::")[-1]
            recv = self.force(self.ev(args[0], env))
            if not isinstance(recv, Opt):
                if m in ("map_or", "map_or_else", "is_some_and", "is_none_or", "is_some", "is_none"):
                    raise Unclassified("Option::%s on unmodelled option" % m)
                return Unknown("option method")
            if m in ("as_ref", "as_deref", "copied", "cloned", "as_mut"):
                return recv
            if m == "is_some":
                return Bool(recv.present)
            if m == "is_none":
                return Bool(not recv.present)
            if m == "map_or":
                if not recv.present:
                    return self.ev(args[1], env)
                return self.apply(self.ev(args[2], env), [recv.inner])
            if m == "map_or_else":
                if not recv.present:
                    return self.apply(self.ev(args[1], env), [])
                return self.apply(self.ev(args[2], env), [recv.inner])
            if m == "is_some_and":
                if not recv.present:
                    return Bool(False)
                return self.apply(self.ev(args[1], env), [recv.inner])
            if m == "is_none_or":
                if not recv.present:
                    return Bool(True)
                return self.apply(self.ev(args[1], env), [recv.inner])
            if m == "map":
                if not recv.present:
                    return Opt(False)
                clo = self.ev(args[1], env)
                return Opt(True, Thunk2(lambda: self.apply(clo, [recv.inner])))
            if m in ("unwrap", "expect", "unwrap_or", "unwrap_or_else", "unwrap_or_default"):
                if recv.present:
                    return self.force(recv.inner)
                if m == "unwrap_or":
                    return self.ev(args[1], env)
                return Unknown("unwrap of None")
            if m == "filter":
                if not recv.present:
                    return Opt(False)
                keep = self.apply(self.ev(args[1], env), [recv.inner])
                if isinstance(keep, Bool):
                    return recv if keep.b else Opt(False)
                raise Unclassified("Option::filter with opaque predicate")
            return Unknown("option method %s" % m)
        # --- Boolean helpers
        if cal in ("core::bool::<impl bool>::then", "core::bool::<impl bool>::then_some"):
            cond = self.force(self.ev(args[0], env))
            if not isinstance(cond, Bool):
                cond = Bool(self.truth(args[0], env))
            if not cond.b:
                return Opt(False)
            if cal.endswith("then_some"):
                return Opt(True, Thunk(args[1], env))
            clo = self.ev(args[1], env)
            return Opt(True, Thunk2(lambda: self.apply(clo, [])))
        if cal in ("core::slice::<impl [T]>::iter", "core::iter::traits::collect::IntoIterator::into_iter",
                   "core::iter::traits::iterator::Iterator::copied", "core::iter::traits::iterator::Iterator::cloned",
                   "core::array::<impl [T; N]>::iter", "core::iter::traits::iterator::Iterator::by_ref") and args:
            v = self.force(self.ev(args[0], env))
            if isinstance(v, Vec):
                return v
            return Unknown("iterator")
        if cal == "core::iter::traits::iterator::Iterator::rev" and len(args) == 1:
            v = self.force(self.ev(args[0], env))
            if isinstance(v, Vec):
                return Vec(list(reversed(v.items)))
            return Unknown("rev")
        if cal in ("core::iter::traits::iterator::Iterator::any", "core::iter::traits::iterator::Iterator::all") and len(args) == 2:
            v = self.force(self.ev(args[0], env))
            if not isinstance(v, Vec):
                raise Unclassified("any/all over an iterator that is not a literal array")
            clo = self.ev(args[1], env)
            want = cal.endswith("::any")
            for it in v.items:
                r = self.force(self.apply(clo, [it]))
                if not isinstance(r, Bool):
                    raise Unclassified("any/all predicate is not Boolean")
                if r.b == want:
                    return Bool(want)
            return Bool(not want)
        if cal == "core::iter::traits::iterator::Iterator::flatten" and len(args) == 1:
            v = self.force(self.ev(args[0], env))
            if isinstance(v, Vec):
                out = []
                for it in v.items:
                    x = self.force(it)
                    if isinstance(x, Opt):
                        if x.present:
                            out.append(x.inner)
                    else:
                        raise Unclassified("flatten over elements that are not options")
                return Vec(out)
            return Unknown("flatten")
        if cal == "core::iter::traits::iterator::Iterator::collect" and len(args) == 1:
            v = self.force(self.ev(args[0], env))
            if isinstance(v, Vec):
                return v
            return Unknown("collect")
        if cal == "core::iter::traits::iterator::Iterator::map" and len(args) == 2:
            v = self.force(self.ev(args[0], env))
            if isinstance(v, Vec):
                clo = self.ev(args[1], env)
                return Vec([Thunk2((lambda it: (lambda: self.apply(clo, [it])))(it)) for it in v.items])
        if cal == "core::iter::traits::iterator::Iterator::filter" and len(args) == 2:
            v = self.force(self.ev(args[0], env))
            if isinstance(v, Vec):
                clo = self.ev(args[1], env)
                out = []
                for it in v.items:
                    r = self.force(self.apply(clo, [it]))
                    if not isinstance(r, Bool):
                        raise Unclassified("filter predicate is not Boolean")
                    if r.b:
                        out.append(it)
                return Vec(out)
            return Unknown("filter")
        if cal in ("core::iter::traits::iterator::Iterator::skip", "core::iter::traits::iterator::Iterator::take") and len(args) == 2:
            v = self.force(self.ev(args[0], env))
            k_ = F.lit_value(args[1])
            if isinstance(v, Vec) and isinstance(k_, int) and not isinstance(k_, bool):
                return Vec(v.items[k_:] if cal.endswith("skip") else v.items[:k_])
            return Unknown(cal.rsplit("::", 1)[-1])
        if cal == "core::ops::bit::Not::not" and len(args) == 1:
            return Bool(not self.truth(args[0], env))
        if cal in ("core::ops::bit::BitOr::bitor", "core::ops::bit::BitAnd::bitand") and len(args) == 2:
            a, b = self.truth(args[0], env), self.truth(args[1], env)
            return Bool((a or b) if cal.endswith("bitor") else (a and b))
        # --- builders / primitives
        if res == "corgi::array::Array::with_children":
            base = self.force(self.ev(args[0], env))
            kids = self.roots(self.ev(args[1], env))
            return Arr(True, kids)
        if res == "corgi::array::Array::with_backward_op":
            return self.force(self.ev(args[0], env))
        if res == "corgi::array::Array::tracked":
            base = self.force(self.ev(args[0], env))
            if isinstance(base, Arr):
                return Arr(True, base.children, None)
            return Arr(True, [])
        if res == "corgi::array::Array::untracked":
            base = self.force(self.ev(args[0], env))
            if isinstance(base, Arr):
                return Arr(False, base.children, None)
            return Arr(False, [])
        if res == "corgi::array::Array::sliced_op":
            bop = self.force(self.ev(args[2], env))
            if not isinstance(bop, Opt):
                raise Unclassified("sliced_op backward_op argument not modelled: %s" % show(args[2])[:80])
            if bop.present:
                return Arr(True, self.roots(self.ev(args[0], env)))
            return Arr(False, [])
        if res == "<corgi::array::Array as core::clone::Clone>::clone":
            base = self.force(self.ev(args[0], env))
            if isinstance(base, Ref):
                return Arr(None, None, same=base.root)
            if isinstance(base, Arr):
                return base
            return Unknown("clone")
        if cal in ("alloc::rc::Rc::<T>::new", "alloc::boxed::Box::<T>::new", "core::convert::Into::into", "core::convert::From::from") and len(args) == 1 \
                and not (res or "").startswith("<corgi::array::Array as core::convert::From<"):
            return self.ev(args[0], env)
        if cal.endswith("::box_assume_init_into_vec_unsafe") or cal.endswith("::write_box_via_move") \
                or cal == "alloc::slice::<impl [T]>::into_vec":
            return self.ev(args[-1], env)
        # --- constructors yield fresh, untracked, graph-free arrays
        if (res or "").startswith("<corgi::array::Array as core::convert::From<"):
            return Arr(False, [])
        # --- local functions: inline (forwarders such as element_wise_op)
        c = e.get("callee") or {}
        if c.get("resolved_local"):
            b = self.facts.body(c["resolved"])
            if b is not None and b.get("thir") and self.depth < 3:
                return self.inline(b, [self.ev(a, env) for a in args])
        if e.get("ty") == ARRAY and getattr(self, "primitive", False) and cal in (
                "core::ops::function::Fn::call", "core::ops::function::FnMut::call_mut", "core::ops::function::FnOnce::call_once"):
            # the caller-supplied forward closure of an attach primitive: whatever it returns, the primitive has not attached anything to it
            return Arr(False, [])
        if e.get("ty") == ARRAY:
            # foreign call returning an Array: not modelled
            return Unknown("array-returning call %s" % cal)
        return Unknown("call %s" % cal)

    def roots(self, v):
        v = self.force(v)
        if isinstance(v, Vec):
            out = []
            for it in v.items:
                x = self.force(it)
                if isinstance(x, Ref):
                    out.append(x.root)
                elif isinstance(x, Arr) and x.same is not None:
                    out.append(x.same)
                elif isinstance(x, Arr) and x.same is None and x.tracked is False:
                    out.append(None)
                else:
                    raise Unclassified("child element is not an operand handle")
            return out
        raise Unclassified("children vector not a literal of operand handles")

    def apply(self, clo, argvals):
        clo = self.force(clo)
        if not isinstance(clo, Clo):
            raise Unclassified("call of a non-literal closure")
        b = self.facts.body(clo.d)
        if b is None:
            raise Unclassified("closure body missing")
        env = dict(clo.env)
        params = self.facts.params(b)
        # params[0] is the closure environment itself
        ps = [p for p in params if p.get("pat")]
        for p, a in zip(ps, argvals):
            self.bind(p["pat"], a, env)
        return self.force(self.ev(self.facts.root(b), env))

    def inline(self, b, argvals):
        self.depth += 1
        try:
            env = {}
            ps = [p for p in self.facts.params(b) if p.get("pat")]
            for p, a in zip(ps, argvals):
                self.bind(p["pat"], a, env)
            try:
                return self.force(self.ev(self.facts.root(b), env))
            except ReturnExc as r:
                return self.force(r.val)
        finally:
            self.depth -= 1


class Thunk2(Thunk):
    def __init__(self, fn):
        self.fn = fn
        self.val = None
        self.busy = False
        self.expr = None
        self.env = None


def _force_thunk2(self, x):
    return x


_orig_force = Eval.force


def _force(self, x):
    if isinstance(x, Thunk2):
        if x.val is None:
            x.val = x.fn()
        return self.force(x.val) if isinstance(x.val, Thunk) else x.val
    return _orig_force(self, x)


Eval.force = _force


def operand_params(facts, b):
    """[(key, kind, pattern)] for the parameters of b that carry operand arrays:
    kind in {'ref' (&Array / Array), 'opt' (Option<&Array>), 'tuple' ((&Array, bool))}."""
    out = []
    for i, p in enumerate(facts.params(b)):
        if not p.get("pat"):
            continue
        ty = p["ty"]
        name = p["pat"].get("name")
        if name is None:
            # a parameter destructured in the signature (`(a, a_transpose): (&Array, bool)`): named after its array-typed binding
            for v, _, t2, _ in F.pat_bindings(p["pat"]):
                if (t2 or "").replace("&", "").strip() == ARRAY:
                    name = v.split("#")[0]
                    break
        if name is None:
            name = "p%d" % i
        if ty in ("&" + ARRAY, ARRAY, "&&" + ARRAY):
            out.append((name, "ref", p))
        elif ty == "core::option::Option<&%s>" % ARRAY:
            out.append((name, "opt", p))
        elif ty.startswith("(&" + ARRAY):
            out.append((name, "tuple", p))
        elif ty in ("&[&%s]" % ARRAY, "alloc::vec::Vec<&%s>" % ARRAY, "&[%s]" % ARRAY, "alloc::vec::Vec<%s>" % ARRAY, "&alloc::vec::Vec<&%s>" % ARRAY):
            out.append((name, "slice", p))
        elif ARRAY in ty and "dyn" not in ty and "Fn" not in ty:
            out.append((name, "other:" + ty, p))
    return out


SLICE_LEN = 2       # operand slices of unknown length are modelled by two elements (enough to tell any / all / first / last apart)


def derivative_params(facts, b):
    """names of parameters of type Option<derivative closure>"""
    out = []
    for i, p in enumerate(facts.params(b)):
        if p.get("pat") and "core::option::Option<" in p["ty"] and "dyn" in p["ty"] and "Fn(" in p["ty"] and ARRAY in p["ty"]:
            out.append((p["pat"].get("name", "p%d" % i), p))
    return out


def evaluate_constructor(facts, b, max_vars=10, primitive=False):
    """Enumerate all assignments; returns (rows, variables, problems) where each row is
    (assignment dict, result Arr|None, error string|None).  With primitive=True operand slices are
    modelled (SLICE_LEN elements) and an optional derivative parameter gets a presence variable."""
    ops = operand_params(facts, b)
    derivs = derivative_params(facts, b) if primitive else []
    base_vars = []
    for name, kind, p in ops:
        if kind == "opt":
            base_vars.append(("P", name))
        if kind == "slice":
            for i in range(SLICE_LEN):
                base_vars.append(("T", "%s[%d]" % (name, i)))
            continue
        base_vars.append(("T", name))
    for name, p in derivs:
        base_vars.append(("P", name))
    extra = []
    labels = {}
    while True:
        variables = base_vars + extra
        if len(variables) > max_vars:
            return None, variables, "too many free conditions (%d)" % len(variables)
        rows = []
        need = None
        for bits in range(1 << len(variables)):
            asg = {v: bool(bits >> i & 1) for i, v in enumerate(variables)}
            # an absent optional operand has no tracking state: canonicalise T=False
            skip = False
            for name, kind, p in ops:
                if kind == "opt" and not asg[("P", name)] and asg[("T", name)]:
                    skip = True
            if skip:
                continue
            consulted = set()
            ev = Eval(facts, asg, consulted)
            ev.primitive = primitive
            argvals = []
            for p in facts.params(b):
                if not p.get("pat"):
                    continue
                ty = p["ty"]
                name = p["pat"].get("name")
                match = [o for o in ops if o[2] is p]
                if match:
                    kind = match[0][1]
                    name = match[0][0]
                    if kind == "ref":
                        argvals.append(Ref(name))
                    elif kind == "opt":
                        argvals.append(Opt(asg[("P", name)], Ref(name)))
                    elif kind == "tuple":
                        argvals.append(Tup([Ref(name), Unknown("flag")]))
                    elif kind == "slice" and primitive:
                        argvals.append(Vec([Ref("%s[%d]" % (name, i)) for i in range(SLICE_LEN)]))
                    else:
                        argvals.append(Unknown("array-carrying parameter"))
                elif any(dp is p for _, dp in derivs):
                    argvals.append(Opt(asg[("P", name)], Unknown("derivative closure")))
                else:
                    argvals.append(Unknown("param"))
            try:
                res = ev.inline(b, argvals)
                rows.append((asg, res, None, consulted))
            except NeedVar as nv:
                need = nv
                break
            except Unclassified as u:
                rows.append((asg, None, str(u), consulted))
            except RecursionError:
                rows.append((asg, None, "recursion limit", consulted))
        if need is not None:
            if need.key in variables:
                return None, variables, "internal: variable requested twice"
            extra.append(need.key)
            labels[need.key] = need.label
            continue
        return rows, variables, None
