"""R30 CONV-GEOMETRY: an axis type system for the index arithmetic of the convolution pipeline,
plus agreement of the window-count formula between the sibling routines.

Convention read from the repository (the only source of axis labels): a `(usize, usize)` value is
(rows, cols) and a `(usize, usize, usize)` value is (depth, rows, cols) — stride, filter and image
dimensions are passed around in exactly these shapes.  Every `usize` quantity gets an *axis set*
(over-approximation of the axes it measures along: R, C, K) and a kind:

    atomP  component of a pair   (a stride / filter / count along one axis)
    atomT  component of a triple (an image extent along one axis)
    ext    derived extent / count (arithmetic over atoms)
    idx    an index: a loop variable, or the quotient / remainder of decoding one
    off    an offset: sums / products involving indices

Typing rules that can fail (each failure names the expression):
    A1  `a - b`, `a + b`, `a / b`, `a % b`, comparisons between two extents that each measure exactly one
        axis: the axes must be equal  (rows are never subtracted from / divided by columns)
    P1  pair-atom x index with disjoint axis sets  (a row stride scales a column index)
    P2  triple-atom (extent) x index of exactly the extent's own axis  (the row-major pitch of an axis is the
        product of the extents of the *later* axes, never its own)
    decoding: for `i / n`, `i % n` with n measuring axes X: the remainder measures X, the quotient
        measures axes(i) \\ X  (all axes when axes(i) is unknown)
Axis sets are over-approximations, so a failure is reported only when the sets are *provably* disjoint /
equal; anything the system cannot type is left untyped (no verdict).

SIBLING: every expression of the form `X / atom + 1` (a window count) in these routines must be the
same function of its atoms (compared structurally, then — if the trees differ — on an integer grid
to separate a different formula from a mere rewriting)."""

import itertools

from . import facts as F
from .core import Ctx
from .facts import callee, resolved, strip, peel, lit_value, walk, ARRAY
from .show import show

ALL = frozenset("RCK")
PAIR = "(usize, usize)"
TRIPLE = "(usize, usize, usize)"
PAIR_AX = {0: "R", 1: "C"}
TRIPLE_AX = {0: "K", 1: "R", 2: "C"}


class AV:
    __slots__ = ("axes", "kind", "src")

    def __init__(self, axes, kind, src=None):
        self.axes = axes        # frozenset or None (unknown)
        self.kind = kind        # atomP atomT ext idx off lit unk
        self.src = src

    def single(self):
        return self.axes is not None and len(self.axes) == 1

    def __repr__(self):
        return "%s{%s}" % (self.kind, "?" if self.axes is None else "".join(sorted(self.axes)))


UNK = AV(None, "unk")
LIT = AV(frozenset(), "lit")


def union(a, b):
    if a.axes is None or b.axes is None:
        return None
    return a.axes | b.axes


def geometry_fns(facts):
    out = []
    for b in facts.fns():
        # a (rows, cols) pair among the parameters marks a routine of the convolution pipeline (stride / filter / window-count pairs)
        if b.get("impl_self") == ARRAY and b.get("impl_trait_def") is None and any(t == PAIR for t in (b.get("inputs") or [])):
            out.append(b)
        elif b.get("impl_self") and b.get("impl_self") != ARRAY and any(t == PAIR for t in (b.get("inputs") or [])) and b.get("thir"):
            # a method of a struct that stores a (rows, cols) pair (a layer's stride): the pair it receives carries the convention
            try:
                flds = facts.adt_fields(b["impl_self"]) or []
            except Exception:
                flds = []
            if any(f.get("ty") == PAIR for f in flds):
                out.append(b)
    return out


class AxisTyper:
    def __init__(self, facts, fn, ctx):
        self.facts = facts
        self.fn = fn
        self.c = ctx
        self.bodies = facts.nested(fn)
        self.origin = {}          # var -> ('let', expr, body) | ('tuple', ty, idx) | ('loop', range_end_expr, body) | ('param',)
        self.memo = {}
        self.busy = set()
        self.n_typed = 0
        self.n_checks = 0
        self.n_decodes = 0
        self.counts = []          # window-count expressions (node, body)
        self.placed = {}          # var -> (tuple type, position) for variables packed into a pair / triple
        self.node_memo = {}
        # Which pair / triple values carry the (rows, cols) / (depth, rows, cols) convention?  Only those that are
        # parameters of the routine itself or are handed to another crate-local function as a pair / triple argument
        # (stride, filter, image dimensions, window counts).  Ad-hoc tuples — closure parameters, iterator items,
        # multi-assignments — are not typed.
        self.conv_vars = set()
        conv_literals = []
        for p in facts.params(fn):
            if p.get("pat") and p.get("ty") in (PAIR, TRIPLE):
                if p["pat"].get("k") == "Binding":
                    self.conv_vars.add(p["pat"]["v"])
                else:
                    conv_literals.append(("parampat", p["pat"]))
        for b in self.bodies:
            for n in walk(facts.root(b)):
                if n.get("k") == "Adt" and n.get("adt_local"):
                    # a pair stored into a field of a crate-local struct keeps the convention (the layer's stride)
                    for f_ in n.get("fields") or []:
                        a0 = strip(f_["e"])
                        if isinstance(a0, dict) and a0.get("ty") in (PAIR, TRIPLE):
                            if a0.get("k") in ("VarRef", "UpvarRef"):
                                self.conv_vars.add(a0["v"])
                            elif a0.get("k") == "Tuple":
                                conv_literals.append(("lit", a0, b))
                if n.get("k") == "Call" and (n.get("callee") or {}).get("resolved_local"):
                    for a in n["args"]:
                        a0 = strip(a)
                        if isinstance(a0, dict) and a0.get("ty") in (PAIR, TRIPLE):
                            if a0.get("k") in ("VarRef", "UpvarRef"):
                                self.conv_vars.add(a0["v"])
                            elif a0.get("k") == "Tuple":
                                conv_literals.append(("lit", a0, b))
        for b in self.bodies:
            for p in facts.params(b):
                if p.get("pat"):
                    if b is fn and p.get("ty") in (PAIR, TRIPLE) and p["pat"].get("k") == "Leaf":
                        self.bind_pat(p["pat"], {"k": "VarRef", "v": "<param>", "ty": p["ty"]}, b, conv=True)
                    else:
                        self.bind_pat(p["pat"], None, b)
            root = facts.root(b)
            for n in walk(root):
                k = n.get("k")
                if k == "Block":
                    for s in n["stmts"]:
                        if s["s"] == "let" and s["pat"].get("k") == "Binding" and s["pat"]["v"] in self.conv_vars and s.get("init") is not None \
                                and strip(s["init"]).get("k") == "Tuple":
                            conv_literals.append(("lit", strip(s["init"]), b))
        for item in conv_literals:
            if item[0] != "lit":
                continue
            n, b = item[1], item[2]
            for i, f_ in enumerate(n["fields"]):
                fv = strip(f_)
                if isinstance(fv, dict) and fv.get("k") in ("VarRef", "UpvarRef"):
                    self.placed.setdefault(fv["v"], (n["ty"], i, b, n))
        for b in self.bodies:
            root = facts.root(b)
            for n in walk(root):
                k = n.get("k")
                if k == "Block":
                    for s in n["stmts"]:
                        if s["s"] == "let":
                            self.bind_pat(s["pat"], s.get("init"), b)
                fl = F.for_loop_parts(n)
                if fl:
                    it, pat, body, _ = fl
                    its = strip(it)
                    if its.get("k") == "Adt" and its.get("adt") == "core::ops::range::Range" and pat.get("k") == "Binding":
                        end = [f_["e"] for f_ in its["fields"] if f_["name"] == "end"]
                        self.origin[pat["v"]] = ("loop", end[0] if end else None, b)
                    else:
                        for v, _, _, _ in F.pat_bindings(pat):
                            self.origin.setdefault(v, ("param",))

    def find_strides(self):
        """the pair whose component divides in a window count `(E - F) / S + 1` is the stride pair: only a stride
        *scales* an index of its own axis; the components of the other pairs (filter / block extents) are pitches"""
        self.stride_srcs = set()
        self.filter_srcs = set()
        for b in self.bodies:
            for n in walk(self.facts.root(b)):
                if n.get("k") == "Binary" and n.get("op") == "Add" and n.get("ty") == "usize":
                    for x, y in ((n["l"], n["r"]), (n["r"], n["l"])):
                        if lit_value(y) == 1:
                            d = strip(x)
                            while isinstance(d, dict) and d.get("k") == "Block" and not d["stmts"] and d.get("e") is not None:
                                d = strip(d["e"])
                            if isinstance(d, dict) and d.get("k") == "Binary" and d.get("op") == "Div":
                                num = strip(d["l"])
                                while isinstance(num, dict) and num.get("k") == "Block" and not num["stmts"] and num.get("e") is not None:
                                    num = strip(num["e"])
                                if isinstance(num, dict) and num.get("k") == "Binary" and num.get("op") == "Sub":
                                    fv = strip(num["r"])
                                    if isinstance(fv, dict) and fv.get("k") in ("VarRef", "UpvarRef"):
                                        o = self.origin.get(fv["v"])
                                        if o and o[0] == "tuple" and o[1] == PAIR:
                                            self.filter_srcs.add(o[3])
                                dv = strip(d["r"])
                                hops = 0
                                while isinstance(dv, dict) and dv.get("k") in ("VarRef", "UpvarRef") and hops < 6:
                                    o = self.origin.get(dv["v"])
                                    if o and o[0] == "tuple" and o[1] == PAIR:
                                        self.stride_srcs.add(o[3])
                                        break
                                    if o and o[0] == "let":
                                        dv = strip(o[1])
                                        hops += 1
                                        continue
                                    break
                                if isinstance(dv, dict) and dv.get("k") == "Field" and strip(dv["e"]).get("k") in ("VarRef", "UpvarRef") \
                                        and strip(dv["e"]).get("ty") == PAIR:
                                    self.stride_srcs.add(strip(dv["e"])["v"])

    def is_filter(self, e):
        e = strip(e)
        if isinstance(e, dict) and e.get("k") in ("VarRef", "UpvarRef"):
            o = self.origin.get(e["v"])
            hops = 0
            while o and o[0] == "let" and strip(o[1]).get("k") in ("VarRef", "UpvarRef") and hops < 6:
                o = self.origin.get(strip(o[1])["v"])
                hops += 1
            return bool(o and o[0] == "tuple" and o[3] in self.filter_srcs and o[3] not in self.stride_srcs)
        return False

    def is_stride(self, e):
        e = strip(e)
        if isinstance(e, dict) and e.get("k") in ("VarRef", "UpvarRef"):
            o = self.origin.get(e["v"])
            hops = 0
            while o and o[0] == "let" and strip(o[1]).get("k") in ("VarRef", "UpvarRef") and hops < 6:
                o = self.origin.get(strip(o[1])["v"])
                hops += 1
            return bool(o and o[0] == "tuple" and o[3] in self.stride_srcs)
        if isinstance(e, dict) and e.get("k") == "Field" and strip(e["e"]).get("k") in ("VarRef", "UpvarRef"):
            return strip(e["e"])["v"] in self.stride_srcs
        return False

    def bind_pat(self, pat, init, body, conv=False):
        k = pat.get("k")
        if k == "Binding":
            if init is not None:
                self.origin[pat["v"]] = ("let", init, body)
            else:
                self.origin.setdefault(pat["v"], ("param",))
            return
        if k == "Leaf" and pat.get("ty") in (PAIR, TRIPLE):
            init_s = strip(init) if init is not None else None
            src = init_s.get("v") if isinstance(init_s, dict) and init_s.get("k") in ("VarRef", "UpvarRef") else None
            for s in pat["subs"]:
                sp = s["pat"]
                if sp.get("k") == "Binding":
                    if conv or (src is not None and src in self.conv_vars):
                        self.origin[sp["v"]] = ("tuple", pat["ty"], s["idx"], src or ("pat%d" % id(pat)), body)
                    elif isinstance(init_s, dict) and init_s.get("k") == "Tuple" and s["idx"] < len(init_s["fields"]):
                        # a multi-assignment `let (a, b) = (e1, e2)`: each variable is its own expression
                        self.origin[sp["v"]] = ("let", init_s["fields"][s["idx"]], body)
                    else:
                        self.origin.setdefault(sp["v"], ("param",))
            return
        for v, _, _, _ in F.pat_bindings(pat):
            self.origin.setdefault(v, ("param",))

    # ------------------------------------------------------------------ typing
    def var(self, v):
        if v in self.memo:
            return self.memo[v]
        if v in self.busy:
            return UNK
        self.busy.add(v)
        o = self.origin.get(v)
        out = UNK
        if o is None or o[0] == "param":
            out = UNK
        elif o[0] == "tuple":
            ax = (PAIR_AX if o[1] == PAIR else TRIPLE_AX).get(o[2])
            out = AV(frozenset([ax]), "atomP" if o[1] == PAIR else "atomT", v) if ax else UNK
        elif o[0] == "let":
            out = self.ty(o[1], o[2])
            if out.kind in ("atomP", "atomT"):
                out = AV(out.axes, out.kind, out.src)
        elif o[0] == "loop":
            end = self.ty(o[1], o[2]) if o[1] is not None else UNK
            out = AV(end.axes, "idx", v)
        pl = self.placed.get(v)
        if pl is not None:
            ax = (PAIR_AX if pl[0] == PAIR else TRIPLE_AX).get(pl[1])
            if out.kind == "unk" and ax:
                # packed into a (rows, cols) / (depth, rows, cols) tuple: the position says which axis the variable measures
                out = AV(frozenset([ax]), "atomP" if pl[0] == PAIR else "atomT", v)
            elif ax and out.single() and out.kind in ("atomP", "atomT", "ext"):
                self.n_checks += 1
                self.c.check(out.axes == frozenset([ax]), "axis:%s#place:%s" % (self.fn.get("name"), v.split("#")[0]), F.loc(pl[2], pl[3]),
                             "`%s` (axis %s) sits in the %s position of `%s`" % (v.split("#")[0], ax, ax, show(pl[3])[:60]),
                             "`%s` measures axis %s but is packed into the %s position of `%s`" % (v.split("#")[0], "".join(out.axes), ax, show(pl[3])[:60]))
        self.busy.discard(v)
        self.memo[v] = out
        return out

    def ty(self, e, body):
        e = strip(e)
        if not isinstance(e, dict):
            return UNK
        k = e.get("k")
        if k == "Literal":
            return LIT if isinstance(lit_value(e), int) else UNK
        if k in ("VarRef", "UpvarRef"):
            return self.var(e["v"])
        if k in ("Borrow", "Deref", "Cast"):
            return self.ty(e["e"], body)
        if k == "Block" and e.get("e") is not None:
            return self.ty(e["e"], body)
        if k == "Field" and strip(e["e"]).get("ty") in (PAIR, TRIPLE) and strip(e["e"]).get("k") in ("VarRef", "UpvarRef") \
                and strip(e["e"])["v"] in self.conv_vars:
            t = strip(e["e"]).get("ty")
            idx = e.get("idx")
            ax = (PAIR_AX if t == PAIR else TRIPLE_AX).get(idx)
            if ax:
                return AV(frozenset([ax]), "atomP" if t == PAIR else "atomT", show(e))
            return UNK
        if k == "Binary" and e.get("ty") == "usize":
            key = id(e)
            if key not in self.node_memo:
                self.node_memo[key] = UNK          # cycle guard
                self.node_memo[key] = self.binary(e, body)
            return self.node_memo[key]
        return UNK

    def factors(self, e):
        e = strip(e)
        while isinstance(e, dict) and e.get("k") == "Block" and not e["stmts"] and e.get("e") is not None:
            e = strip(e["e"])
        if isinstance(e, dict) and e.get("k") == "Binary" and e.get("op") == "Mul":
            return self.factors(e["l"]) + self.factors(e["r"])
        return [e]

    def resolve_factor(self, e):
        """a let-bound variable whose initialiser is a product is a product too"""
        e = strip(e)
        if isinstance(e, dict) and e.get("k") in ("VarRef", "UpvarRef"):
            o = self.origin.get(e["v"])
            if o and o[0] == "let" and strip(o[1]).get("k") == "Binary" and strip(o[1]).get("op") == "Mul":
                out = []
                for f_ in self.factors(o[1]):
                    out.extend(self.resolve_factor(f_))
                return out
        return [e]

    def binary(self, e, body):
        op = e.get("op")
        a = self.ty(e["l"], body)
        b = self.ty(e["r"], body)
        self.n_typed += 1
        where = F.loc(body, e)
        inst = "axis:%s#%s" % (self.fn.get("name"), show(e)[:70])
        is_extent = lambda v: v.kind in ("atomP", "atomT", "ext")
        if op in ("Add", "Sub"):
            # inference: an untyped variable subtracted from / added to an extent of one axis measures that axis too
            # (`image_rows - filter_rows` with image_rows read from a dimension vector); later uses are checked against it
            for x, xe, y in ((a, e["l"], b), (b, e["r"], a)):
                xs = strip(xe)
                if x.kind == "unk" and x.axes is None and isinstance(xs, dict) and xs.get("k") in ("VarRef", "UpvarRef") \
                        and y.kind in ("atomP", "atomT", "ext") and y.single() and self.origin.get(xs["v"], ("param",))[0] in ("param", "let"):
                    inferred = AV(y.axes, "ext", xs["v"])
                    self.memo[xs["v"]] = inferred
                    if x is a:
                        a = inferred
                    else:
                        b = inferred
            axes = union(a, b)
            if is_extent(a) and is_extent(b) and a.single() and b.single():
                self.n_checks += 1
                self.c.check(a.axes == b.axes, inst, where, "extents of the same axis %s" % "".join(a.axes),
                             "`%s` combines an extent along %s with one along %s" % (show(e)[:80], "".join(a.axes), "".join(b.axes)))
            kind = "off" if "idx" in (a.kind, b.kind) or "off" in (a.kind, b.kind) else ("unk" if "unk" in (a.kind, b.kind) else "ext")
            if kind in ("ext", "unk") and op == "Add" and (a.kind == "lit" or b.kind == "lit"):
                # `X / atom + 1`: a window count
                other = strip(e["l"]) if b.kind == "lit" else strip(e["r"])
                while isinstance(other, dict) and other.get("k") == "Block" and not other["stmts"] and other.get("e") is not None:
                    other = strip(other["e"])
                if isinstance(other, dict) and other.get("k") == "Binary" and other.get("op") == "Div" and lit_value(e["r"] if b.kind == "lit" else e["l"]) == 1:
                    self.counts.append((e, body))
            return AV(axes, kind)
        if op == "Mul":
            fs = []
            for f_ in self.factors(e):
                fs.extend(self.resolve_factor(f_))
            tv = [(f_, self.ty(f_, body)) for f_ in fs]
            idxs = [(f_, v) for f_, v in tv if v.kind in ("idx", "off")]
            for f_, v in tv:
                if v.kind == "atomP" and v.single() and self.is_filter(f_):
                    # a filter / block extent (the subtrahend of a window count) used as a pitch: never the pitch of an index along its own axis
                    for g, w in idxs:
                        if w.kind == "idx" and w.single():
                            self.n_checks += 1
                            self.c.check(v.axes != w.axes, inst, where, "%s is the pitch of another axis' index" % show(f_)[:40],
                                         "`%s`: the extent `%s` along %s is used as the pitch of an index along the same axis (`%s`)"
                                         % (show(e)[:80], show(f_)[:40], "".join(v.axes), show(g)[:40]))
                if v.kind == "atomP" and v.single() and self.is_stride(f_):
                    for g, w in idxs:
                        if w.kind == "idx" and w.axes is not None:
                            self.n_checks += 1
                            self.c.check(bool(v.axes & w.axes), inst, where, "%s scales an index along its own axis" % show(f_)[:40],
                                         "`%s`: the %s-axis quantity `%s` scales the index `%s`, which runs along %s"
                                         % (show(e)[:80], "".join(v.axes), show(f_)[:40], show(g)[:40], "".join(sorted(w.axes)) or "no axis"))
                if v.kind == "atomT" and v.single():
                    for g, w in idxs:
                        if w.kind == "idx" and w.single():
                            self.n_checks += 1
                            self.c.check(v.axes != w.axes, inst, where, "%s is the pitch of another axis' index" % show(f_)[:40],
                                         "`%s`: the extent `%s` along %s is used as the pitch of an index along the same axis (`%s`)"
                                         % (show(e)[:80], show(f_)[:40], "".join(v.axes), show(g)[:40]))
            axes = frozenset()
            for _, v in tv:
                if v.axes is None:
                    axes = None
                    break
                axes |= v.axes
            kinds = [v.kind for _, v in tv]
            kind = "off" if ("idx" in kinds or "off" in kinds) else ("unk" if "unk" in kinds else "ext")
            return AV(axes, kind)
        if op in ("Div", "Rem"):
            if a.kind in ("idx", "off") and b.axes is not None and b.kind in ("atomP", "atomT", "ext") and b.axes:
                self.n_decodes += 1
                if op == "Rem":
                    return AV(b.axes, "idx")
                base = a.axes if a.axes is not None else ALL
                return AV(frozenset(base - b.axes), "idx")
            if is_extent(a) and is_extent(b):
                if a.single() and b.single():
                    self.n_checks += 1
                    self.c.check(a.axes == b.axes, inst, where, "extent and divisor of the same axis %s" % "".join(a.axes),
                                 "`%s` divides an extent along %s by a quantity along %s" % (show(e)[:80], "".join(a.axes), "".join(b.axes)))
                return AV(union(a, b), "ext")
            return UNK
        return UNK

    def run(self):
        self.find_strides()
        for v in list(self.placed):
            self.var(v)         # placement consistency of variables that occur only inside the tuple
        for b in self.bodies:
            for n in walk(self.facts.root(b)):
                if n.get("k") == "Binary" and n.get("ty") == "usize":
                    self.ty(n, b)
                elif n.get("k") == "Binary" and n.get("op") in ("Lt", "Le", "Gt", "Ge", "Eq", "Ne") and strip(n["l"]).get("ty") == "usize":
                    a, b2 = self.ty(n["l"], b), self.ty(n["r"], b)
                    if a.kind in ("atomP", "atomT", "ext") and b2.kind in ("atomP", "atomT", "ext") and a.single() and b2.single():
                        self.n_checks += 1
                        self.c.check(a.axes == b2.axes, "axis:%s#%s" % (self.fn.get("name"), show(n)[:70]), F.loc(b, n),
                                     "comparison within one axis", "`%s` compares an extent along %s with one along %s" % (show(n)[:80], "".join(a.axes), "".join(b2.axes)))


# ---------------------------------------------------------------------------------- sibling agreement

def _canon(typer, e, atoms, depth=0):
    """expression tree with variables resolved to atoms; atoms numbered in order of first occurrence"""
    e = strip(e)
    while isinstance(e, dict) and e.get("k") == "Block" and not e["stmts"] and e.get("e") is not None:
        e = strip(e["e"])
    if not isinstance(e, dict) or depth > 12:
        return None
    k = e.get("k")
    if k == "Literal":
        v = lit_value(e)
        return ("lit", v) if isinstance(v, int) else None
    if k in ("VarRef", "UpvarRef"):
        o = typer.origin.get(e["v"])
        if o and o[0] == "let":
            s = strip(o[1])
            if s.get("k") in ("Binary", "VarRef", "UpvarRef", "Literal") or (s.get("k") == "Block" and s.get("e") is not None):
                return _canon(typer, o[1], atoms, depth + 1)
        key = e["v"]
        if key not in atoms:
            atoms[key] = len(atoms)
        return ("atom", atoms[key])
    if k == "Field" and strip(e["e"]).get("ty") in (PAIR, TRIPLE):
        key = show(e)
        if key not in atoms:
            atoms[key] = len(atoms)
        return ("atom", atoms[key])
    if k == "Binary" and e.get("op") in ("Add", "Sub", "Mul", "Div", "Rem"):
        l = _canon(typer, e["l"], atoms, depth + 1)
        r = _canon(typer, e["r"], atoms, depth + 1)
        if l is None or r is None:
            return None
        return (e["op"], l, r)
    if k == "Call" and (callee(e) or "").rsplit("::", 1)[-1] in ("div_ceil", "div_euclid", "wrapping_div", "saturating_sub", "wrapping_sub", "next_multiple_of") and len(e["args"]) == 2:
        l = _canon(typer, e["args"][0], atoms, depth + 1)
        r = _canon(typer, e["args"][1], atoms, depth + 1)
        if l is None or r is None:
            return None
        opn = {"div_ceil": "DivCeil", "div_euclid": "Div", "wrapping_div": "Div", "saturating_sub": "SatSub", "wrapping_sub": "Sub", "next_multiple_of": "NextMul"}[(callee(e) or "").rsplit("::", 1)[-1]]
        return (opn, l, r)
    # anything else (a dimension read, a call) is an opaque atom keyed by its text
    key = "expr:" + show(e)[:80]
    if key not in atoms:
        atoms[key] = len(atoms)
    return ("atom", atoms[key])


def _eval(t, env):
    if t[0] == "lit":
        return t[1]
    if t[0] == "atom":
        return env[t[1]]
    a, b = _eval(t[1], env), _eval(t[2], env)
    if a is None or b is None:
        return None
    if t[0] == "Add":
        return a + b
    if t[0] == "Sub":
        return a - b if a >= b else None      # usize underflow: the point is outside the domain
    if t[0] == "Mul":
        return a * b
    if t[0] == "SatSub":
        return max(0, a - b)
    if b == 0:
        return None
    if t[0] == "DivCeil":
        return -(-a // b)
    if t[0] == "NextMul":
        return -(-a // b) * b
    return a // b if t[0] == "Div" else a % b


def _differ(t1, n1, t2, n2):
    """a point of the integer grid on which the two formulas (same number of atoms, matched by order of first
    occurrence) disagree, or None"""
    n = max(n1, n2)
    if n1 != n2 or n > 4:
        return "?"
    for vals in itertools.product(range(1, 10), repeat=n):
        a, b = _eval(t1, vals), _eval(t2, vals)
        if a is None or b is None:
            continue
        if a != b:
            return vals, a, b
    return None


def r30_conv_geometry(facts):
    """CONV-GEOMETRY: axis typing of the convolution pipeline's index arithmetic ((rows, cols) pairs, (depth, rows, cols) triples; strides scale indices of their own axis; an extent is never the pitch of its own axis) and one window-count formula shared by the sibling routines"""
    c = Ctx("R30", facts, "convolution geometry: axis-consistent index arithmetic, one window-count formula")
    fns = geometry_fns(facts)
    c.floor("array routines taking (rows, cols) / (depth, rows, cols) tuples", len(fns), 3)
    total_typed = total_checks = total_dec = 0
    counts = []
    for fn in fns:
        t = AxisTyper(facts, fn, c)
        try:
            t.run()
        except RecursionError:
            c.unk("axis:%s" % fn.get("name"), F.loc(fn, facts.root(fn)), "expression nesting too deep for the axis typer")
            continue
        total_typed += t.n_typed
        total_checks += t.n_checks
        total_dec += t.n_decodes
        for e, b in t.counts:
            atoms = {}
            tree = _canon(t, e, atoms)
            if tree is not None:
                counts.append((fn, b, e, tree, len(atoms)))
        # any other named quantity computed by dividing by a component of a (rows, cols) pair is a window count written differently:
        # compared with (extent - filter extent) / stride + 1 under every assignment of its three inputs
        known = {id(e) for e, _ in t.counts}
        stride_vars = set()
        for e, _ in t.counts:
            for x in walk(e):
                if x.get("k") == "Binary" and x.get("op") == "Div" and F.var_of(x["r"]):
                    stride_vars.add(F.var_of(x["r"]))
        if not stride_vars:
            # no count in the usual form here: the stride is the first (rows, cols) pair among the parameters, as in the sibling routines
            pair_params = [p_["pat"].get("v") for p_ in facts.params(fn) if p_.get("pat") and p_.get("ty") == PAIR and p_["pat"].get("k") == "Binding"]
            if pair_params:
                for n0 in walk(facts.root(fn)):
                    if n0.get("k") == "Block":
                        for st0 in n0["stmts"]:
                            if st0["s"] == "let" and st0["pat"].get("k") == "Leaf" and st0.get("init") is not None and F.var_of(F.peel(st0["init"])) == pair_params[0]:
                                for v0, _, _, _ in F.pat_bindings(st0["pat"]):
                                    stride_vars.add(v0)
        for nb in t.bodies:
            for n in walk(facts.root(nb)):
                if n.get("k") != "Block":
                    continue
                for st in n["stmts"]:
                    if st["s"] != "let" or st["pat"].get("k") != "Binding" or st["pat"].get("ty") != "usize" or st.get("init") is None:
                        continue
                    init = strip(st["init"])
                    if id(init) in known or any(id(x) in known for x in walk(init)):
                        continue
                    divs = [x for x in walk(init) if x.get("k") == "Binary" and x.get("op") == "Div"]
                    divs += [{"r": x["args"][1]} for x in walk(init) if x.get("k") == "Call" and (callee(x) or "").rsplit("::", 1)[-1] in ("div_ceil", "div_euclid", "wrapping_div", "checked_div") and len(x["args"]) == 2]
                    if not divs:
                        continue

                    def pair_component(v):
                        o = t.origin.get(v)
                        return bool(o and o[0] == "tuple" and o[1] == PAIR)
                    if not any(F.var_of(d["r"]) in stride_vars for d in divs):
                        continue
                    atoms = {}
                    tree = _canon(t, init, atoms)
                    if tree is None or len(atoms) != 3:
                        continue
                    spec3 = ("Add", ("Div", ("Sub", ("atom", 0), ("atom", 1)), ("atom", 2)), ("lit", 1))
                    agree = False
                    witness = None
                    for perm in itertools.permutations(range(3)):
                        bad_pt = None
                        for vals in itertools.product(range(1, 8), repeat=3):
                            E, Fv, S = vals
                            if Fv > E:
                                continue
                            got = _eval(tree, tuple(vals[perm[i]] for i in range(3)))
                            want = (E - Fv) // S + 1
                            if got is None or got != want:
                                bad_pt = (vals, "a panic (underflow / division by zero)" if got is None else got, want)
                                break
                        if bad_pt is None:
                            agree = True
                            break
                        witness = witness or bad_pt
                    inst = "count-form:%s#%s" % (fn.get("name"), st["pat"].get("name", "?"))
                    if agree:
                        c.ok(inst, F.loc(nb, init), "`%s` equals (extent - filter extent) / stride + 1 on the grid 1..7" % show(init)[:60])
                    elif witness:
                        c.bad(inst, F.loc(nb, init), "`%s` divides by a stride but is not the window count (extent - filter extent) / stride + 1 under any reading of its three inputs "
                              "(e.g. inputs %s give %s where the count is %s)" % (show(init)[:70], list(witness[0]), witness[1], witness[2]))
    _stride_as_given(facts, c)
    # a (rows, cols) pair re-assembled from the components of another pair keeps their order
    for b in facts.bodies:
        root = facts.root(b)
        if root is None:
            continue
        for n in walk(root):
            if n.get("k") == "Tuple" and n.get("ty") == PAIR and len(n["fields"]) == 2:
                prj = []
                for f_ in n["fields"]:
                    f0 = strip(f_)
                    if isinstance(f0, dict) and f0.get("k") == "Field" and f0.get("idx") is not None and (strip(f0["e"]).get("ty") or "").lstrip("&") == PAIR:
                        prj.append((show(strip(f0["e"]))[:60], f0["idx"]))
                    else:
                        prj.append(None)
                if None not in prj and prj[0][0] == prj[1][0] and (prj[0][1], prj[1][1]) == (1, 0):
                    c.bad("pair-order:%s" % b["def"], F.loc(b, n), "the pair `%s` is re-assembled with its components swapped (`.1`, `.0`): rows and columns change places" % prj[0][0])
    c.count("usize operations typed", total_typed)
    c.count("axis checks performed", total_checks)
    c.count("index decodings typed", total_dec)
    if total_checks == 0:
        c.unk("axis:coverage", "-", "no operation of the convolution routines could be axis-typed: the (rows, cols) / (depth, rows, cols) tuple convention is not visible in this code")
    # ---- sibling agreement of the window-count formula
    c.count("window-count expressions (X / atom + 1)", len(counts))
    # the documented output extent: (extent - filter extent) / stride + 1
    spec = ("Add", ("Div", ("Sub", ("atom", 0), ("atom", 1)), ("atom", 2)), ("lit", 1))
    if counts:
        fn0, b0, e0, tree0, n0 = counts[0]
        inst = "count-spec:%s" % fn0.get("name")
        if tree0 == spec:
            c.ok(inst, F.loc(b0, e0), "window count = (extent - filter extent) / stride + 1")
        else:
            d = _differ(spec, 3, tree0, n0)
            if d is None:
                c.ok(inst, F.loc(b0, e0), "window count equals (extent - filter extent) / stride + 1 on the whole integer grid 1..9")
            elif d == "?":
                c.unk(inst, F.loc(b0, e0), "window count `%s` is not a function of (extent, filter extent, stride)" % show(e0)[:60])
            else:
                vals, a, b2 = d
                c.bad(inst, F.loc(b0, e0), "window count `%s` is not (extent - filter extent) / stride + 1: inputs %s give %s instead of %s" % (show(e0)[:70], list(vals), b2, a))
    if len(counts) >= 2:
        ref = counts[0]
        for fn, b, e, tree, n in counts[1:]:
            inst = "count:%s#%s" % (fn.get("name"), show(e)[:60])
            where = F.loc(b, e)
            if tree == ref[3]:
                c.ok(inst, where, "same window-count formula as %s" % ref[0].get("name"))
                continue
            d = _differ(ref[3], ref[4], tree, n)
            if d is None:
                c.ok(inst, where, "window-count formula written differently from %s's but equal on the whole integer grid 1..9" % ref[0].get("name"))
            elif d == "?":
                c.unk(inst, where, "window-count formula `%s` has a different set of inputs than `%s` in %s" % (show(e)[:60], show(ref[2])[:60], ref[0].get("name")))
            else:
                vals, a, b2 = d
                c.bad(inst, where, "window count `%s` disagrees with `%s` of %s (e.g. inputs %s give %s vs %s): the routines decode / lay out window positions differently"
                      % (show(e)[:70], show(ref[2])[:70], ref[0].get("name"), list(vals), b2, a))
    elif len(counts) == 1:
        c.ok("count:single", F.loc(counts[0][1], counts[0][2]), "the window count is computed in one place only", nontrivial=False)
    else:
        c.unk("count:none", "-", "no window-count expression of the form `X / atom + 1` found in the convolution routines")
    return c


def _stride_as_given(facts, c):
    """the public convolution hands its stride pair on untransformed: to the unrolling routine and as the divisor of the window counts"""
    for fn in facts.fns():
        if not (fn.get("impl_self") == ARRAY and fn.get("impl_trait_def") is None and (fn.get("inputs") or []) == ["&" + ARRAY, "&" + ARRAY, PAIR]):
            continue
        ps = [p for p in facts.params(fn) if p.get("pat")]
        sp = ps[2]["pat"]
        lets = {}
        comp = {}       # var -> class
        if sp.get("k") == "Binding":
            comp[sp["v"]] = ("whole",)
        else:
            for v, _, _, path in F.pat_bindings(sp):
                idx = [x for x in path if x != "*"]
                if len(idx) == 1 and idx[0] in ("0", "1"):
                    comp[v] = ("id", int(idx[0]))
        root = facts.root(fn)
        for n in walk(root):
            if n.get("k") == "Block":
                for s_ in n["stmts"]:
                    if s_["s"] == "let" and s_.get("init") is not None:
                        lets.setdefault(id(s_), s_)
        memo = {}

        def cls(e, depth=0):
            e = strip(e)
            if not isinstance(e, dict) or depth > 12:
                return None
            k = e.get("k")
            if k in ("VarRef", "UpvarRef"):
                return comp.get(e["v"])
            if k in ("Borrow", "Deref", "Use", "Cast"):
                return cls(e["e"], depth + 1)
            if k == "Tuple":
                parts = [cls(x, depth + 1) for x in e["fields"]]
                if all(p_ is None for p_ in parts):
                    return None
                return ("pair", tuple(parts))
            if k == "Field" and e.get("idx") is not None:
                b_ = cls(e["e"], depth + 1)
                if b_ == ("whole",):
                    return ("id", e["idx"])
                if b_ and b_[0] == "pair" and e["idx"] < len(b_[1]):
                    return b_[1][e["idx"]]
                return b_ if b_ and b_[0] == "alt" else None
            if k == "Block" and e.get("e") is not None and not e["stmts"]:
                return cls(e["e"], depth + 1)
            # anything else that mentions a stride-derived value transforms it; through a crate-local helper nothing is known
            for x in walk(e):
                if x.get("k") in ("VarRef", "UpvarRef") and comp.get(x["v"]) is not None:
                    local = any(y.get("k") == "Call" and (y.get("callee") or {}).get("resolved_local") for y in walk(e))
                    return ("alt", show(e)[:60], not local)
            return None
        # bind lets in order (a fixed number of rounds is enough for straight-line code)
        for _ in range(4):
            for s_ in lets.values():
                init = s_["init"]
                pat = s_["pat"]
                ci = cls(init)
                if pat.get("k") == "Binding":
                    if ci is not None and not _is_count_expr(init):
                        comp[pat["v"]] = ci
                elif pat.get("k") == "Leaf":
                    for v, _, _, path in F.pat_bindings(pat):
                        idx = [x for x in path if x != "*"]
                        if len(idx) != 1 or not idx[0].isdigit():
                            continue
                        i = int(idx[0])
                        if ci == ("whole",):
                            comp[v] = ("id", i)
                        elif ci and ci[0] == "pair" and i < len(ci[1]) and ci[1][i] is not None:
                            comp[v] = ci[1][i]
                        elif ci and ci[0] == "alt":
                            comp[v] = ci
        inst = "stride-as-given:%s" % fn.get("name")
        where0 = F.loc(fn, root)
        verdict = None
        n_sinks = 0
        for n in walk(root):
            # the unrolling routine (array, pair, pair) is where the stride places the windows; other pair arguments (window counts) are not strides
            cbody = facts.body(resolved(n)) if n.get("k") == "Call" and (n.get("callee") or {}).get("resolved_local") else None
            if cbody is not None and (cbody.get("inputs") or []) == ["&" + ARRAY, PAIR, PAIR]:
                for a in n["args"]:
                    a0 = strip(a)
                    if isinstance(a0, dict) and a0.get("ty") == PAIR:
                        k_ = cls(a0)
                        if k_ is None:
                            continue
                        n_sinks += 1
                        ok_ = k_ == ("whole",) or (k_[0] == "pair" and tuple(k_[1]) == (("id", 0), ("id", 1)))
                        if not ok_:
                            why = k_[1] if k_[0] == "alt" else ("components %s" % (k_[1],) if k_[0] == "pair" else str(k_))
                            if k_[0] == "alt" or (k_[0] == "pair" and any(p_ and p_[0] == "alt" for p_ in k_[1])):
                                alt = k_ if k_[0] == "alt" else [p_ for p_ in k_[1] if p_ and p_[0] == "alt"][0]
                                if len(alt) > 2 and not alt[2]:
                                    verdict = verdict or ("unk", F.loc(fn, a0), "the stride pair handed to `%s` goes through a crate-local helper (`%s`)" % ((resolved(n) or "").rsplit("::", 1)[-1], alt[1]))
                                    continue
                                verdict = ("bad", F.loc(fn, a0), "the stride pair handed to `%s` is not the caller's stride but `%s`: windows are placed with a different stride than requested"
                                           % ((resolved(n) or "").rsplit("::", 1)[-1], alt[1]))
                            elif k_[0] == "pair" and tuple(k_[1]) == (("id", 1), ("id", 0)):
                                verdict = ("bad", F.loc(fn, a0), "the stride pair is handed on with its components swapped")
                            else:
                                verdict = verdict or ("unk", F.loc(fn, a0), "how the stride pair handed to `%s` derives from the parameter is not recognised (%s)" % ((resolved(n) or "").rsplit("::", 1)[-1], why))
            if _is_count_expr(n):
                d = strip(strip(n)["l"])["r"]
                k_ = cls(d)
                if k_ is not None:
                    n_sinks += 1
                    if k_[0] == "alt" and (len(k_) < 3 or k_[2]):
                        verdict = ("bad", F.loc(fn, n), "the window count divides by `%s`, not by the caller's stride" % k_[1])
                    elif k_[0] == "alt":
                        verdict = verdict or ("unk", F.loc(fn, n), "the divisor of the window count goes through a crate-local helper")
                    elif k_[0] != "id":
                        verdict = verdict or ("unk", F.loc(fn, n), "divisor of the window count not recognised")
        if verdict is None and n_sinks:
            c.ok(inst, where0, "the stride parameter reaches the unrolling routine and the window counts untransformed (%d uses)" % n_sinks)
        elif verdict is None:
            c.unk(inst, where0, "no use of the stride parameter recognised")
        elif verdict[0] == "bad":
            c.bad(inst, verdict[1], verdict[2])
        else:
            c.unk(inst, verdict[1], verdict[2])


def _is_count_expr(n):
    """X / s + 1"""
    n = strip(n)
    if not (isinstance(n, dict) and n.get("k") == "Binary" and n.get("op") == "Add" and F.lit_value(n["r"]) == 1):
        return False
    l = strip(n["l"])
    return isinstance(l, dict) and l.get("k") == "Binary" and l.get("op") == "Div"
