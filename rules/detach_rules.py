"""R45 NO-DETACHED-DEPENDENCE: a composite differentiable function (one that builds its result only out of
other differentiable operations and attaches no derivative of its own) must not route a dependence on its
array operands through a plain number.

A plain `Float` taken out of an array (`sum_all()`, `values()[i]`, `values().iter().sum()`, indexing) carries no
graph.  If the result of the composite depends on such a number m = g(operand) with d(result)/dm not identically
zero, the recorded graph lacks the path result <- m <- operand, so backward drops the term
d(result)/dm * dm/d(operand) - one path from the result to the leaf is not counted (C01).

Decided in the exact algebra of `symalg`: the composite's value is read from the source with the extracted numbers as
atoms of their own; the obligation is d(value)/d(atom) == 0 as a rational function (true e.g. for a max-shift that
cancels).  An extraction the algebra cannot read, or an atom buried inside an uninterpreted function symbol, is an
abstention.  Nothing is executed."""

import re

from . import facts as F
from .core import Ctx
from .facts import callee, resolved, strip, walk, ARRAY, is_backward_closure, is_sliced_closure
from .show import show
from .symalg import Frac, Poly, PW, Unsupported
from .deriv_rules import Forward, Abstain

EXTRACT_FNS = ("corgi::array::Array::values", "corgi::array::arithmetic::<impl corgi::array::Array>::sum_all")
DETACHED_PREFIX = ("sum_all[", "sigma[", "elem[", "det[")
OPERAND_ATOM = re.compile(r"(?<![A-Za-z0-9_:])a\d+(?![A-Za-z0-9_])|f:")


def _is_extraction(n, fl):
    """a call / field access that takes plain numbers out of an array"""
    k = n.get("k")
    if k == "Call":
        r = resolved(n) or ""
        if r in EXTRACT_FNS or r.endswith("::sum_all") and (n.get("ty") == fl):
            return True
        if r.startswith("<%s as core::ops::index::Index<" % ARRAY):
            return True
        if r.startswith("<alloc::vec::Vec<%s> as core::convert::From<%s>>" % (fl, ARRAY)):
            return True
        if callee(n) == "core::convert::Into::into" and n["args"] and (n["args"][0].get("ty") or "").lstrip("&") == ARRAY and "Vec<%s>" % fl in (n.get("ty") or ""):
            return True
    if k == "Field" and n.get("name") == "values" and (n.get("lhs_ty") or (n.get("e") or {}).get("ty") or "").lstrip("&").replace("mut ", "") == ARRAY:
        return True
    return False


def _only_shape_use(n, parents):
    """the extracted vector is used for its length only"""
    p = parents.get(id(n))
    hops = 0
    while p is not None and p.get("k") in ("Borrow", "Deref", "Use", "Scope") and hops < 6:
        p = parents.get(id(p))
        hops += 1
    return p is not None and p.get("k") == "Call" and (callee(p) or "") in ("alloc::vec::Vec::<T, A>::len", "core::slice::<impl [T]>::len", "alloc::vec::Vec::<T, A>::is_empty")


def composites(facts):
    from .op_rules import op_constructors, ATTACH_PRIMITIVES
    ctors = {b["def"] for b in op_constructors(facts)}
    out = []
    for b in facts.bodies:
        if not b.get("thir"):
            continue
        if b["kind"] in ("Fn", "AssocFn"):
            out_ty = b.get("output") or ""
            if out_ty != ARRAY and not out_ty.endswith(">::Output"):
                continue
            if b["def"] in ctors or b["def"] in ATTACH_PRIMITIVES:
                continue
            tr = b.get("impl_trait_def")
            if tr is not None and not tr.startswith("core::ops::arith::") and not tr.startswith("corgi::"):
                continue            # conversions, Clone, Index, ...: not differentiable operations (a conversion makes a new leaf by definition)
            if not any(ARRAY in (t or "") for t in (b.get("inputs") or [])):
                continue
            if any(is_backward_closure(nb) or is_sliced_closure(nb, facts) for nb in facts.nested(b)):
                continue            # builds values / a derivative of its own: an operation constructor or a kernel
            out.append(b)
        elif b["kind"] == "Closure":
            if b.get("closure_output") != ARRAY or is_backward_closure(b):
                continue
            ins = b.get("closure_inputs") or []
            if not any(ARRAY in (t or "") for t in ins):
                continue
            root = facts.body(b.get("root")) if b.get("root") else None
            if root is not None and (root["def"] in ctors or any(is_backward_closure(nb) for nb in facts.nested(root))):
                continue            # a helper closure inside an operation constructor
            out.append(b)
    return out


def r45_no_detached_dependence(facts):
    """NO-DETACHED-DEPENDENCE: a composite operation (softmax, the costs, layer and model forward passes, operator forwarding) never lets its result depend on a plain number extracted from an operand-derived array (sum_all(), values()[i], indexing) with a non-zero derivative: that dependence is not recorded, so backward would drop a path"""
    c = Ctx("R45", facts, "composite operations do not route a dependence on their operands through a plain number")
    fl = facts.float or "f64"
    comps = composites(facts)
    c.floor("composite differentiable functions and closures (array in, array out, no derivative of their own)", len(comps), 8)
    # crate-local array-returning functions that are themselves composites taking numbers out of their operands (a `detach()`-like helper):
    # a call of one is an extraction site of the caller
    extracting = set()
    for b in comps:
        if b["kind"] not in ("Fn", "AssocFn"):
            continue
        for nb in facts.nested(b):
            root = facts.root(nb)
            parents = {}
            for n in walk(root):
                for ch in F.kids(n):
                    if isinstance(ch, dict):
                        parents[id(ch)] = n
            if any(_is_extraction(n, fl) and not _only_shape_use(n, parents) for n in walk(root)):
                extracting.add(b["def"])
    for b in comps:
        where = "%s:%d" % (F.rel(b["file"]), b["sp"][0])
        inst = "composite:%s" % b["def"]
        sites = []
        for nb in facts.nested(b):
            root = facts.root(nb)
            parents = {}
            for n in walk(root):
                for ch in F.kids(n):
                    if isinstance(ch, dict):
                        parents[id(ch)] = n
            for n in walk(root):
                if _is_extraction(n, fl) and not _only_shape_use(n, parents):
                    sites.append((nb, n))
                elif n.get("k") == "Call" and resolved(n) in extracting and resolved(n) != b["def"]:
                    sites.append((nb, n))
        if not sites:
            c.ok(inst, where, "takes no plain number out of an array", nontrivial=False)
            continue
        fw = Forward(facts)
        fw.ev.uninterp = True
        fw.ev.detach = True
        try:
            if b["kind"] == "Closure":
                env_vals = []
                for i, p in enumerate(pp for pp in facts.params(b) if pp.get("pat")):
                    env_vals.append(("arr", fw.alg.atom("a%d" % i)) if ARRAY in (p["ty"] or "") else ("unk", "closure parameter"))
                val = fw.ev.apply(("clo", b["def"], None), env_vals)
            else:
                val, _, _ = fw.ctor(b)
            vals = list(fw.ev.alts(val))
        except (Abstain, Unsupported, RecursionError) as ex:
            c.unk(inst, F.loc(sites[0][0], sites[0][1]), "takes numbers out of an array (`%s`) in a computation the algebra cannot read (%s)" % (show(sites[0][1])[:60], ex))
            continue
        verdict = None
        for v in vals:
            if v[0] != "arr":
                verdict = verdict or ("unk", "a result the algebra cannot read (%s)" % (str(v[1])[:80] if v[0] == "unk" else v[0]))
                continue
            for piece in _pieces(v[1]):
                atoms = piece.atoms()
                if len(atoms) == 1 and next(iter(atoms)).startswith("det[") and piece.equals(fw.alg.atom(next(iter(atoms)))):
                    continue        # the whole result is a new leaf assembled from the operand's numbers: a detaching function, which records no graph at all
                det = sorted(a for a in atoms if a.startswith(DETACHED_PREFIX) and OPERAND_ATOM.search(a[a.index("["):]))
                for m in det:
                    buried = [a for a in atoms if a != m and m in a and not a.startswith(("exp[", "ln["))]
                    if buried:
                        verdict = verdict or ("unk", "`%s` occurs inside `%s`, which the algebra does not differentiate" % (m, buried[0][:60]))
                        continue
                    try:
                        d = fw.alg.diff(piece, m)
                    except Unsupported as ex:
                        verdict = verdict or ("unk", str(ex))
                        continue
                    if not d.is_zero():
                        verdict = ("bad", "the result %r depends on `%s`, a plain number computed from the operand's values (d result / d number = %r is not zero): "
                                   "that number carries no graph, so the path from the result to the operand through it is not recorded and backward drops its contribution"
                                   % (piece, m, d))
                        break
                if verdict and verdict[0] == "bad":
                    break
            if verdict and verdict[0] == "bad":
                break
        site_loc = F.loc(sites[0][0], sites[0][1])
        if verdict is None:
            c.ok(inst, site_loc, "numbers taken out of arrays do not influence the result's value (derivative identically zero) or are shape counts")
        elif verdict[0] == "bad":
            c.bad(inst, site_loc, verdict[1])
        else:
            c.unk(inst, site_loc, "takes numbers out of an array; whether the result depends on them: " + verdict[1])
    return c


def _pieces(v):
    if isinstance(v, PW):
        return _pieces(v.t) + _pieces(v.f)
    return [v]


def r47_no_operand_alias(facts):
    """NO-OPERAND-ALIAS: an operation of two or more array operands never returns one of its operands (or a clone of it) as its result: such a result is tracked exactly when THAT operand is (not when any operand is), shares its gradient slot and storage, and drops the other operands from the graph"""
    from .pass_rules import _return_paths
    from .shape_rules import _lets
    c = Ctx("R47", facts, "operations of several operands build a result of their own (never hand back an operand)")
    n_ops = 0
    for b in facts.fns():
        if not b.get("thir"):
            continue
        out_ty = b.get("output") or ""
        if out_ty != ARRAY and not out_ty.endswith(">::Output"):
            continue
        tr = b.get("impl_trait_def")
        if tr is not None and not tr.startswith("core::ops::arith::") and not tr.startswith("corgi::"):
            continue
        ps = [p for p in facts.params(b) if p.get("pat")]
        arr_params = {}
        for p in ps:
            ty = (p.get("ty") or "")
            if ty.replace("&", "").strip() == ARRAY and p["pat"].get("k") == "Binding":
                arr_params[p["pat"]["v"]] = p["pat"].get("name", "?")
            elif ty in ("(&%s, bool)" % ARRAY,):
                for v, _, t2, _ in F.pat_bindings(p["pat"]):
                    if (t2 or "").replace("&", "").strip() == ARRAY:
                        arr_params[v] = v.split("#")[0]
        # tuple parameters bound by name and destructured later: `let (a, a_transpose) = a;`
        env = _lets(facts, b)
        for n in walk(facts.root(b)):
            if n.get("k") == "Block":
                for s_ in n["stmts"]:
                    if s_["s"] == "let" and s_["pat"].get("k") == "Leaf" and s_.get("init") is not None:
                        for v, _, t2, _ in F.pat_bindings(s_["pat"]):
                            if (t2 or "").replace("&", "").strip() == ARRAY:
                                arr_params[v] = v.split("#")[0]
        if len(arr_params) < 2:
            continue
        n_ops += 1
        where0 = "%s:%d" % (F.rel(b["file"]), b["sp"][0])
        inst = "op:%s" % b["def"]
        verdict = None
        for ctx, e in _return_paths(facts.root(b)):
            t = strip(e)
            hops = 0
            while isinstance(t, dict) and hops < 6:
                if t.get("k") in ("VarRef", "UpvarRef") and t["v"] in env and t["v"] not in arr_params:
                    t = strip(env[t["v"]])
                elif t.get("k") == "Call" and ((resolved(t) or "") == "<%s as core::clone::Clone>::clone" % ARRAY or (callee(t) or "") == "core::clone::Clone::clone") and t["args"]:
                    t = F.peel(t["args"][0])
                elif t.get("k") in ("Borrow", "Deref", "Use"):
                    t = strip(t["e"])
                else:
                    break
                hops += 1
            if isinstance(t, dict) and t.get("k") in ("VarRef", "UpvarRef") and t["v"] in arr_params:
                flags = [cond for cond, truth in F.path_facts(ctx) if any(x.get("k") == "Field" and x.get("name") in ("is_tracked", "keep_gradient") for x in walk(cond))]
                if flags:
                    verdict = verdict or ("unk", F.loc(b, e), "returns its operand `%s` on a path conditioned on tracking flags (`%s`)" % (arr_params[t["v"]], show(flags[0])[:50]))
                else:
                    verdict = ("bad", F.loc(b, e), "on one of its paths the operation returns (a clone of) its operand `%s` instead of a result of its own: that value is tracked exactly when `%s` is, "
                               "whatever the other operands are, shares `%s`'s gradient slot and storage, and records no dependence on the other operands"
                               % (arr_params[t["v"]], arr_params[t["v"]], arr_params[t["v"]]))
                    break
        if verdict is None:
            c.ok(inst, where0, "every path builds a result of its own", nontrivial=False)
        elif verdict[0] == "bad":
            c.bad(inst, verdict[1], verdict[2])
        else:
            c.unk(inst, verdict[1], verdict[2])
    c.floor("operations with two or more array operands", n_ops, 8)
    return c


def r51_no_flat_broadcast_in_derivatives(facts):
    """NO-FLAT-BROADCAST: inside the derivative of an operation with several array operands (and the helpers nested in it), two different arrays are never combined by zipping their raw value buffers - by flat position, or with `cycle()` - unless the path establishes that their dimensions are equal: equal lengths do not make flat positions correspond ([r,n] against [r,1] cycled reads s[(i*n+j) % r], not s[i])"""
    from .op_rules import op_constructors
    IT_ = "core::iter::traits::iterator::Iterator::"
    c = Ctx("R51", facts, "derivatives of binary operations do not broadcast by flat position")
    ctors = [b for b in op_constructors(facts)]
    n_bodies = 0
    for ctor in ctors:
        n_arr = sum(1 for t in (ctor.get("inputs") or []) if ARRAY in (t or ""))
        if n_arr < 2:
            continue
        bodies = [nb for nb in facts.nested(ctor) if nb is not ctor and is_backward_closure(nb)]
        bodies += [x for x in facts.fns() if x["def"].startswith(ctor["def"] + "::")]
        for cb in list(bodies):
            if cb["kind"] == "Closure":
                for x in facts.nested(cb):
                    if x not in bodies:
                        bodies.append(x)
        for nb in bodies:
            n_bodies += 1
            root = facts.root(nb)
            if root is None:
                continue
            lets = {}
            for n in walk(root):
                if n.get("k") == "Block":
                    for st in n["stmts"]:
                        if st["s"] == "let" and st["pat"].get("k") == "Binding" and st.get("init") is not None:
                            lets[st["pat"]["v"]] = st["init"]

            def source(e, depth=0):
                """(array key, cycled?) if the iterator expression walks the raw values of an array"""
                e = F.peel(e)
                cyc = False
                while isinstance(e, dict) and depth < 12:
                    depth += 1
                    if e.get("k") == "Call" and e["args"]:
                        tail = (callee(e) or "").rsplit("::", 1)[-1]
                        if tail == "cycle":
                            cyc = True
                        if tail in ("iter", "into_iter", "cycle", "copied", "cloned", "deref", "take", "skip", "as_slice", "as_ref", "borrow", "rev", "by_ref", "peekable"):
                            e = F.peel(e["args"][0])
                            continue
                        if (resolved(e) or "") == "corgi::array::Array::values":
                            return show(F.peel(e["args"][0]))[:40], cyc
                        return None
                    if e.get("k") == "Field" and e.get("name") == "values" and e.get("adt") == ARRAY:
                        return show(F.peel(e["e"]))[:40], cyc
                    if e.get("k") in ("VarRef", "UpvarRef") and e["v"] in lets:
                        e = F.peel(lets[e["v"]])
                        continue
                    return None
                return None
            for n, ctx in F.walk_ctx(root):
                if not (n.get("k") == "Call" and callee(n) == IT_ + "zip" and len(n["args"]) == 2):
                    continue
                a, b_ = source(n["args"][0]), source(n["args"][1])
                if a is None or b_ is None or a[0] == b_[0]:
                    continue
                inst = "zip:%s" % nb["def"]
                dims_eq = False
                for cond, truth in F.path_facts(ctx):
                    cs = strip(cond)
                    if truth and ((cs.get("k") == "Binary" and cs.get("op") == "Eq") or (cs.get("k") == "Call" and callee(cs) == "core::cmp::PartialEq::eq")):
                        names = {show(F.peel(x["e"]))[:40] for x in walk(cs) if x.get("k") == "Field" and x.get("name") == "dimensions"} | \
                                {show(F.peel(x["args"][0]))[:40] for x in walk(cs) if x.get("k") == "Call" and resolved(x) == "corgi::array::Array::dimensions" and x["args"]}
                        if a[0] in names and b_[0] in names:
                            dims_eq = True
                if dims_eq:
                    c.ok(inst, F.loc(nb, n), "raw buffers of `%s` and `%s` are zipped on a path where their dimensions are equal" % (a[0], b_[0]))
                else:
                    c.bad(inst, F.loc(nb, n), "the derivative combines `%s` and `%s` by zipping their raw value buffers%s without having established that their dimensions are equal: "
                          "flat positions correspond only for equal shapes (or a shape that is a suffix of the other); for a broadcast operand with a trailing unit dimension "
                          "([r,n] against [r,1]) the wrong elements meet, so the adjoint has the right shape and wrong values"
                          % (a[0], b_[0], " (one of them repeated with `cycle()`)" if a[1] or b_[1] else ""))
    c.floor("derivative closures / nested helpers of operations with several array operands", n_bodies, 3)
    return c


def r54_no_flat_pairing_in_forward(facts):
    """NO-FLAT-PAIRING: a function that builds an array never combines two DIFFERENT arrays by zipping their raw value buffers unless the path establishes that their dimensions are equal (a shortcut whose guard compares ranks, lengths or element counts pairs [1,3] with [3,1] position by position and never broadcasts)"""
    IT_ = "core::iter::traits::iterator::Iterator::"
    c = Ctx("R54", facts, "array-building functions pair the raw buffers of two arrays only under equal dimensions")
    n_fn = 0
    for fn in facts.fns():
        if ARRAY not in (fn.get("output") or "") or fn.get("impl_trait_def") in ("core::clone::Clone", "core::convert::From"):
            continue
        if sum(1 for t in (fn.get("inputs") or []) if ARRAY in (t or "")) < 2:
            continue
        n_fn += 1
        for nb in facts.nested(fn):
            if is_backward_closure(nb) or any(is_backward_closure(x) for x in _ancestors_of(facts, nb)):
                continue
            root = facts.root(nb)
            if root is None:
                continue
            lets = {}
            for n in walk(root):
                if n.get("k") == "Block":
                    for st in n["stmts"]:
                        if st["s"] == "let" and st["pat"].get("k") == "Binding" and st.get("init") is not None:
                            lets[st["pat"]["v"]] = st["init"]

            def source(e, depth=0):
                e = F.peel(e)
                while isinstance(e, dict) and depth < 12:
                    depth += 1
                    if e.get("k") == "Call" and e["args"]:
                        tail = (callee(e) or "").rsplit("::", 1)[-1]
                        if tail in ("iter", "into_iter", "cycle", "copied", "cloned", "deref", "as_slice", "as_ref", "borrow", "by_ref", "peekable"):
                            e = F.peel(e["args"][0])
                            continue
                        if (resolved(e) or "") == "corgi::array::Array::values":
                            return show(F.peel(e["args"][0]))[:40]
                        return None
                    if e.get("k") == "Field" and e.get("name") == "values" and e.get("adt") == ARRAY:
                        return show(F.peel(e["e"]))[:40]
                    if e.get("k") in ("VarRef", "UpvarRef") and e["v"] in lets:
                        e = F.peel(lets[e["v"]])
                        continue
                    return None
                return None
            for n, ctx in F.walk_ctx(root):
                if not (n.get("k") == "Call" and callee(n) == IT_ + "zip" and len(n["args"]) == 2):
                    continue
                a, b_ = source(n["args"][0]), source(n["args"][1])
                if a is None or b_ is None or a == b_:
                    continue
                inst = "zip:%s" % nb["def"]
                dims_eq, other = False, []
                for cond, truth in F.path_facts(ctx):
                    for cs in _conjuncts(strip(cond), truth):
                        if (cs.get("k") == "Binary" and cs.get("op") == "Eq") or (cs.get("k") == "Call" and callee(cs) == "core::cmp::PartialEq::eq"):
                            sides = [cs["l"], cs["r"]] if cs.get("k") == "Binary" else cs["args"]
                            whole = []
                            for sd in sides:
                                pe = F.peel(sd)
                                if isinstance(pe, dict) and pe.get("k") == "Field" and pe.get("name") == "dimensions" and pe.get("adt") == ARRAY:
                                    whole.append(show(F.peel(pe["e"]))[:40])
                                elif isinstance(pe, dict) and pe.get("k") == "Call" and resolved(pe) == "corgi::array::Array::dimensions" and pe["args"]:
                                    whole.append(show(F.peel(pe["args"][0]))[:40])
                            if sorted(whole) == sorted([a, b_]):
                                dims_eq = True
                            else:
                                other.append(show(cs)[:50])
                        else:
                            other.append(show(cs)[:50])
                if dims_eq:
                    c.ok(inst, F.loc(nb, n), "raw buffers of `%s` and `%s` are zipped on a path where their dimensions are equal" % (a, b_))
                elif any((y.get("callee") or {}).get("resolved_local") for cond, _ in F.path_facts(ctx) for y in walk(cond) if y.get("k") == "Call"):
                    c.unk(inst, F.loc(nb, n), "raw buffers of `%s` and `%s` are zipped under a condition computed by a helper function (not read)" % (a, b_))
                else:
                    c.bad(inst, F.loc(nb, n), "`%s` and `%s` are combined by zipping their raw value buffers%s: flat positions correspond only for equal dimensions, so operands that "
                          "must be broadcast against each other ([1,3] with [3,1]) are paired position by position, and incompatible shapes of equal size are not refused"
                          % (a, b_, (" under the guard `%s`, which does not establish equal dimensions" % other[0]) if other else " without any guard"))
    c.count("array-building functions of two or more arrays", n_fn)
    return c


def _conjuncts(cs, truth):
    """the atomic conditions that hold when `cs` has value `truth` (conjunctions split when true, disjunctions when false)"""
    cs = strip(cs)
    if not isinstance(cs, dict):
        return []
    if cs.get("k") == "LogicalOp" and ((cs["op"] == "And" and truth) or (cs["op"] == "Or" and not truth)):
        return _conjuncts(cs["l"], truth) + _conjuncts(cs["r"], truth)
    if not truth:
        return []
    return [cs]


def _ancestors_of(facts, nb):
    out = []
    cur = nb
    while cur is not None and cur.get("kind") == "Closure" and cur.get("parent"):
        cur = facts.body(cur["parent"])
        if cur is not None:
            out.append(cur)
    return out
