"""R19 CONFIG-INVARIANCE: the f32 build is the f64 build with the float type substituted."""

import re

from . import facts as F
from .core import Ctx, Ob
from .facts import walk, strip, callee
from .repr_rules import diverges

FLOAT_TOKEN = re.compile(r"\b(f64|f32)\b")
FLOAT_CONST = re.compile(r"(-?[0-9][0-9_]*(?:\.[0-9]+)?(?:[eE][-+]?[0-9]+)?)(f64|f32)\b")


def _canon_const(m):
    try:
        v = float(m.group(1).replace("_", ""))
        return "%.6gFloat" % v
    except ValueError:
        return m.group(1) + "Float"


def norm(s):
    s = FLOAT_CONST.sub(_canon_const, s)
    return FLOAT_TOKEN.sub("Float", s)


def body_signature(b):
    """structural, width-erased summary of a MIR body"""
    mir = b.get("mir")
    if not mir:
        return None
    out = []
    out.append("locals:" + "|".join(norm(l["ty"]) for l in mir["locals"]))
    for blk in mir["blocks"]:
        stm = [norm(s["text"]) for s in blk["stmts"]]
        t = blk["term"]
        out.append("bb%d%s: %s => %s -> %s" % (blk["i"], "(cleanup)" if blk["cleanup"] else "", " ; ".join(stm), norm(t["text"]), t["succ"]))
    return out


def _panics(n):
    """the branch ends in a panic (an assertion / refusal), not in a mere early return"""
    n = strip(n)
    if not isinstance(n, dict):
        return False
    if n.get("k") == "Call":
        # a call of a diverging function (`-> !`): the panic machinery itself or a local `fail_*` helper wrapping it
        return (callee(n) or "").startswith("core::panicking::") or (callee(n) or "").startswith("std::panicking::") or n.get("ty") == "!"
    if n.get("k") == "Block":
        for s_ in n["stmts"]:
            if s_["s"] == "expr" and _panics(s_["e"]):
                return True
        return n.get("e") is not None and _panics(n["e"])
    return False


def r19_config_invariance(facts_by_cfg, run_rules):
    c = Ctx("R19", None, "the f32 build is the f64 build with the float type substituted")
    fd = facts_by_cfg.get("default")
    f3 = facts_by_cfg.get("f32")
    if fd is None or f3 is None:
        c.floor("configurations extracted", len(facts_by_cfg), 2)
        return c
    c.check(fd.float == "f64" and f3.float == "f32", "alias:Float", "src/numbers.rs",
            "Float is f64 in the default build and f32 under the f32 feature",
            "Float alias is %s / %s" % (fd.float, f3.float))
    # (a) same bodies and items
    dd = {norm(b["def"]): b for b in fd.bodies}
    d3 = {norm(b["def"]): b for b in f3.bodies}
    c.floor("bodies in the default build", len(dd), 100)
    only_d = sorted(set(dd) - set(d3))
    only_3 = sorted(set(d3) - set(dd))
    c.check(not only_d and not only_3, "items:same-bodies", "-", "both builds have the same %d bodies" % len(dd),
            "the builds differ in which functions exist: only default %s, only f32 %s" % (only_d[:5], only_3[:5]))
    id_ = {norm(i["def"]) + ":" + i.get("kind", "") for i in fd.items}
    i3 = {norm(i["def"]) + ":" + i.get("kind", "") for i in f3.items}
    c.check(id_ == i3, "items:same-items", "-", "both builds have the same %d items" % len(id_),
            "the builds differ in items: %s" % sorted(id_ ^ i3)[:6])
    # (b) width-erased MIR identical
    n_cmp = 0
    bits_roots = set()
    for bb in fd.bodies:
        sig = body_signature(bb)
        if sig and any("_bits" in x for x in sig):
            bits_roots.add(bb.get("root") or bb["def"])
            bits_roots.add(bb["def"])
    for d in sorted(set(dd) & set(d3)):
        a, b = body_signature(dd[d]), body_signature(d3[d])
        if a is None and b is None:
            continue
        n_cmp += 1
        where = "%s:%d" % (F.rel(dd[d]["file"]), dd[d]["sp"][0])
        if a == b:
            c.ok("mir:%s" % d, where, "MIR identical after erasing the float width (%d blocks)" % (len(a) - 1), nontrivial=False)
        elif a is not None and b is not None and ((dd[d].get("root") or dd[d]["def"]) in bits_roots or dd[d]["def"] in bits_roots) and \
                [re.sub(r"\b[ui]64\b", "FloatBits", x) for x in a] == [re.sub(r"\b[ui]32\b", "FloatBits", x) for x in b]:
            # the integer holding a float's bit pattern (to_bits / from_bits) has the float's width: still only the width differs
            c.ok("mir:%s" % d, where, "MIR identical after erasing the float width and the width of its bit-pattern integer (%d blocks)" % (len(a) - 1), nontrivial=False)
        else:
            diff = ""
            if a is None or b is None or len(a) != len(b):
                diff = "different block structure (%s vs %s blocks)" % (a and len(a) - 1, b and len(b) - 1)
            else:
                for x, y in zip(a, b):
                    if x != y:
                        diff = "default `%s` vs f32 `%s`" % (x[:160], y[:160])
                        break
            c.bad("mir:%s" % d, where, "the two builds compile this body differently beyond the float width: %s" % diff)
    c.floor("bodies compared", n_cmp, 100)
    # (c) no foreign width inside a build
    for cfg, facts, foreign in (("default", fd, "f32"), ("f32", f3, "f64")):
        pat = re.compile(r"\b%s\b" % foreign)
        hits = 0
        for b in facts.bodies:
            mir = b.get("mir")
            if not mir:
                continue
            found = None
            for l in mir["locals"]:
                if pat.search(l["ty"]):
                    found = "local of type %s" % l["ty"]
            for blk in mir["blocks"]:
                for s in blk["stmts"]:
                    if pat.search(s["text"]):
                        found = "statement `%s`" % s["text"][:120]
                if pat.search(blk["term"]["text"]):
                    found = "terminator `%s`" % blk["term"]["text"][:120]
            for t in (b.get("inputs") or []) + [b.get("output") or ""]:
                if pat.search(t):
                    found = "signature type %s" % t
            if found:
                hits += 1
                c.bad("width:%s:%s" % (cfg, norm(b["def"])), "%s:%d" % (F.rel(b["file"]), b["sp"][0]),
                      "%s build uses %s explicitly (%s): the computation does not follow the Float alias" % (cfg, foreign, found))
        if not hits:
            c.ok("width:%s" % cfg, "-", "no `%s` type, cast or constant anywhere in the %s build's MIR" % (foreign, cfg))
    # (d) no assertion depends on a float
    for cfg, facts in (("default", fd), ("f32", f3)):
        fl = facts.float
        n_assert = 0
        for b in facts.bodies:
            for n in walk(facts.root(b)):
                if n.get("k") == "If" and n.get("else") is None and _panics(n["then"]):
                    n_assert += 1
                    cond = n["cond"]
                    bad = None
                    # resolve `if !flag` where flag is a let in the same body
                    exprs = [cond]
                    from .repr_rules import let_env
                    env = let_env(facts.root(b))
                    for x in walk(cond):
                        if x.get("k") == "VarRef" and x["v"] in env:
                            exprs.append(env[x["v"]])
                    for ex in exprs:
                        todo = [ex]
                        seen_c = set()
                        while todo:
                            cur = todo.pop()
                            for x in walk(cur):
                                t = x.get("ty")
                                is_float = t in (fl, "&" + fl, "&&" + fl)
                                # a comparison of two inputs is the same in both builds; what depends on the width is
                                # *computed* floating point (arithmetic, library functions) and width-specific constants
                                if is_float and x.get("k") in ("Binary", "AssignOp", "Cast"):
                                    bad = x
                                if is_float and x.get("k") == "Call" and not (callee(x) or "").startswith("core::ops::deref::") \
                                        and (callee(x) or "") not in ("core::clone::Clone::clone", "core::ops::index::Index::index",
                                                                     "core::option::Option::<T>::unwrap", "core::iter::traits::iterator::Iterator::next"):
                                    bad = x
                                if x.get("k") == "NamedConst" and ("::f64::" in x.get("def", "") or "::f32::" in x.get("def", "")
                                                                  or x.get("ty") in (fl,)):
                                    bad = x
                                if x.get("k") == "Closure" and x["closure"] not in seen_c:
                                    seen_c.add(x["closure"])
                                    cb = facts.body(x["closure"])
                                    if cb:
                                        todo.append(facts.root(cb))
                    inst = "assert:%s:%s#%d" % (cfg, norm(b["def"]), n["sp"][0] if False else 0)
                    if bad is not None:
                        c.bad("assert:%s:%s" % (cfg, norm(b["def"])), F.loc(b, n),
                              "an assertion / refusal condition depends on a floating-point value: which inputs are accepted may change with the float width")
        c.count("assertions examined (%s)" % cfg, n_assert)
        if cfg == "default":
            c.floor("assertions (diverging ifs) in the crate", n_assert, 8)
    # (f) no width-characteristic constant (EPSILON, MAX, MIN_POSITIVE, ..) in the library's computations: its mathematical value
    #     differs between the widths, so whatever it enters differs from the double-precision reference by more than rounding
    WIDTH_CONSTS = ("EPSILON", "MAX", "MIN", "MIN_POSITIVE", "DIGITS", "MANTISSA_DIGITS", "MAX_EXP", "MIN_EXP", "MAX_10_EXP", "MIN_10_EXP", "RADIX")
    for cfg, facts in (("default", fd), ("f32", f3)):
        hits = 0
        for b in facts.bodies:
            for n in walk(facts.root(b)):
                if n.get("k") == "NamedConst":
                    d = n.get("def", "")
                    last = d.rsplit("::", 1)[-1]
                    if last in WIDTH_CONSTS and ("f64" in d or "f32" in d) and n.get("ty") in ("f64", "f32", "u32", "i32"):
                        hits += 1
                        c.bad("width-const:%s:%s" % (cfg, norm(b["def"])), F.loc(b, n),
                              "the width-characteristic constant `%s` enters a computation: its value is not the same number in the two builds "
                              "(2.2e-16 vs 1.2e-7 for EPSILON), so results differ from the double-precision reference by more than rounding" % norm(d))
        # the size of the float type in bytes / bits is such a constant too (`8 / size_of::<Float>()` lanes)
        for b in facts.bodies:
            for n in walk(facts.root(b)):
                if n.get("k") == "Call" and (callee(n) or "") in ("core::mem::size_of", "core::mem::align_of", "core::mem::size_of_val", "core::mem::align_of_val") \
                        and any(g in ("f64", "f32") for g in ((n.get("callee") or {}).get("gargs") or [])):
                    hits += 1
                    c.bad("width-const:%s:%s" % (cfg, norm(b["def"])), F.loc(b, n),
                          "`%s` of the float type (8 in one build, 4 in the other) enters a computation: counts, chunk widths or loop bounds derived from it differ between the builds" % (callee(n) or "").rsplit("::", 1)[-1])
        # the same constants reached through the `approx` traits' defaults (`Float::default_epsilon()` is f64::EPSILON / f32::EPSILON)
        for b in facts.bodies:
            if (b.get("impl_trait_def") or "").startswith("approx::") or (facts.body(b.get("root", "")) or {}).get("impl_trait_def", "").startswith("approx::") \
                    if b.get("root") else (b.get("impl_trait_def") or "").startswith("approx::"):
                continue        # the crate's own AbsDiffEq / RelativeEq impls for Array forward the defaults: comparison tolerances, not computations
            for n in walk(facts.root(b)):
                if n.get("k") == "Call" and (callee(n) or "").startswith("approx::") and (callee(n) or "").rsplit("::", 1)[-1].startswith("default_") \
                        and n.get("ty") in ("f64", "f32"):
                    hits += 1
                    c.bad("width-const:%s:%s" % (cfg, norm(b["def"])), F.loc(b, n),
                          "`%s` is the float type's EPSILON (2.2e-16 vs 1.2e-7): a width-characteristic constant enters a computation or a branch, so results differ "
                          "from the double-precision reference by more than rounding" % norm(callee(n)))
        if not hits:
            c.ok("width-const:%s" % cfg, "-", "no EPSILON / MAX / MIN_POSITIVE / .. of a float type in the %s build's bodies" % cfg)
    # (g) no integer is derived from a floating-point value: a shape, count, index or loop bound that goes through a Float is rounded
    #     to the float's width (exact up to 2^53 in one build, up to 2^24 in the other), so shapes / accepted inputs would depend on it
    for cfg, facts in (("default", fd), ("f32", f3)):
        hits = n_i2f = 0
        for b in facts.bodies:
            mir = b.get("mir")
            if not mir:
                continue
            for blk in mir["blocks"]:
                for st in blk["stmts"]:
                    t = st["text"]
                    if "(IntToFloat)" in t:
                        n_i2f += 1
                    if "(FloatToInt)" in t:
                        hits += 1
                        c.bad("float-to-int:%s:%s" % (cfg, norm(b["def"])), "%s:%d" % (F.rel(b["file"]), b["sp"][0]),
                              "an integer is computed from a floating-point value (`%s`): whatever it sizes, counts or indexes is rounded to the float's width first "
                              "(integers above 2^24 are not exact in the single-precision build), so shapes and accepted inputs can differ between the builds" % norm(t)[:100])
                t = blk["term"]["text"]
                if "to_int_unchecked" in t:
                    hits += 1
                    c.bad("float-to-int:%s:%s" % (cfg, norm(b["def"])), "%s:%d" % (F.rel(b["file"]), b["sp"][0]), "an integer is computed from a floating-point value (`%s`)" % norm(t)[:100])
        if cfg == "default":
            c.floor("integer-to-float casts seen in MIR (the cast kinds are visible to this clause)", n_i2f, 4)
        if not hits:
            c.ok("float-to-int:%s" % cfg, "-", "no float-to-integer conversion anywhere in the %s build (%d integer-to-float casts seen)" % (cfg, n_i2f))
    # (e) every other rule gives the same obligations under both configurations
    from . import registry as REG
    from . import contract_rules as KR
    diffs = 0
    total = 0
    for p in sorted(REG.PROPERTY_RULES):
        if p == "C19":
            continue
        try:
            from . import dep_rules as DPR_
            DPR_.SKIP = True
            KR.SKIP = True      # the shape slice never touches a float: its grid evaluation is the same work in both builds, done once by the property's own check
            try:
                oa, _, _ = run_rules(p, fd)
                ob, _, _ = run_rules(p, f3)
            finally:
                KR.SKIP = False
                DPR_.SKIP = False
        except Exception as e:      # pragma: no cover
            c.unk("rules:%s" % p, "-", "rule evaluation failed: %r" % e)
            continue
        sa = {(norm(o.key), o.status) for o in oa}
        sb = {(norm(o.key), o.status) for o in ob}
        total += len(sa)
        if sa == sb:
            c.ok("rules:%s" % p, "-", "%d obligations, same keys and verdicts in both builds" % len(sa))
        else:
            diffs += 1
            c.bad("rules:%s" % p, "-", "rule results differ between the builds: %s" % sorted(sa ^ sb)[:4])
    c.count("obligations compared across configurations", total)
    return c
