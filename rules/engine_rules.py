"""R9 SLOT-ARITY-AND-GATE over every backward closure (the engine rules R10, R11, R14, R23,
R24, R25 live in pass_rules.py).  See DESIGN.md section 3."""

from . import facts as F
from . import trackeval as TE
from .core import Ctx
from .facts import ARRAY, callee, resolved, strip, peel, walk, walk_ctx, loc, field_chain, var_of, lit_value
from .repr_rules import vec_literal_elems, self_var, param_vars, MUTATING
from .op_rules import (BOP_MARK, WITH_CHILDREN, WITH_BOP, SLICED_OP, op_constructors, is_none_literal, ATTACH_PRIMITIVES)
from .show import show

FN_CALL = "core::ops::function::Fn::call"
CELL = "core::cell::Cell::<T>::"
OPTION = "core::option::Option"

ENGINE_FN_NAMES = ("backward", "propagate_consumers")


# ------------------------------------------------------------------ anchors

def engine_bodies(facts):
    out = {}
    for b in facts.fns():
        if b.get("impl_self") == ARRAY and b.get("impl_trait_def") is None and b.get("name") in ENGINE_FN_NAMES:
            out[b["name"]] = b
    return out


def field_roles(facts):
    """Engine fields of Array, identified by type: counter Rc<Cell<usize>>, pending delta
    Rc<Cell<Option<Array>>>, gradient Rc<RefCell<Option<Array>>>, derivative Option<Rc<dyn Fn..>>."""
    roles = {}
    for f in facts.adt_fields(ARRAY):
        t = f["ty"]
        if t == "alloc::rc::Rc<core::cell::Cell<usize>>":
            roles.setdefault("counter", []).append(f["name"])
        elif t == "alloc::rc::Rc<core::cell::Cell<core::option::Option<corgi::array::Array>>>":
            roles.setdefault("delta", []).append(f["name"])
        elif t == "alloc::rc::Rc<core::cell::RefCell<core::option::Option<corgi::array::Array>>>":
            roles.setdefault("gradient", []).append(f["name"])
        elif t.startswith("core::option::Option<alloc::rc::Rc<") and BOP_MARK in t:
            roles.setdefault("derivative", []).append(f["name"])
        elif t == "alloc::rc::Rc<alloc::vec::Vec<corgi::array::Array>>":
            roles.setdefault("edges", []).append(f["name"])
        elif t == "core::cell::Cell<bool>":
            roles.setdefault("flags", []).append(f["name"])
    return roles


def role(facts, name):
    r = field_roles(facts).get(name, [])
    return r[0] if len(r) == 1 else None


def invocation_sites(facts):
    """Calls of a derivative closure: Fn::call whose callee object has the BackwardOp type."""
    out = []
    for b in facts.bodies:
        for n, ctx in walk_ctx(facts.root(b)):
            if n.get("k") == "Call" and callee(n) in (FN_CALL, "core::ops::function::FnMut::call_mut", "core::ops::function::FnOnce::call_once"):
                g = (n.get("callee") or {}).get("gargs") or []
                if g and BOP_MARK.replace("'a ", "").replace("'b ", "").replace("'c ", "") in g[0].replace("'a ", "").replace("'b ", "").replace("'c ", ""):
                    out.append((b, n, ctx))
    return out


def closure_tail(facts, b):
    """The value a closure/function body evaluates to, looking through statement blocks:
    (prefix statements, tail expr)."""
    root = strip(facts.root(b))
    stmts = []
    while isinstance(root, dict) and root.get("k") == "Block":
        stmts.extend(root["stmts"])
        if root.get("e") is None:
            return stmts, None
        root = strip(root["e"])
    return stmts, root


# ------------------------------------------------------------------ R9

def flows(facts, b, e, env, depth=0):
    """Closure definitions / parameter variables an expression may evaluate to."""
    out = set()
    e = strip(e)
    if e is None or depth > 12:
        return out
    k = e.get("k")
    if k == "Closure":
        out.add(("closure", e["closure"]))
    elif k in ("VarRef", "UpvarRef"):
        v = e["v"]
        if v in env:
            out |= flows(facts, b, env[v], env, depth + 1)
        else:
            out.add(("var", v))
    elif k == "If":
        out |= flows(facts, b, e["then"], env, depth + 1)
        if e.get("else") is not None:
            out |= flows(facts, b, e["else"], env, depth + 1)
    elif k == "Match":
        for a in e["arms"]:
            out |= flows(facts, b, a["body"], env, depth + 1)
    elif k == "Block":
        if e.get("e") is not None:
            out |= flows(facts, b, e["e"], env, depth + 1)
    elif k == "Adt" and e["adt"] == OPTION and e["variant"] == "Some":
        out |= flows(facts, b, e["fields"][0]["e"], env, depth + 1)
    elif k == "Call" and callee(e) in ("alloc::rc::Rc::<T>::new", "alloc::boxed::Box::<T>::new", "core::clone::Clone::clone") and e["args"]:
        out |= flows(facts, b, e["args"][0], env, depth + 1)
    elif k in ("Borrow", "Deref"):
        out |= flows(facts, b, e["e"], env, depth + 1)
    elif k == "Call" and callee(e) in ("core::bool::<impl bool>::then", "core::option::Option::<T>::map", "core::option::Option::<T>::map_or",
                                       "core::option::Option::<T>::or_else", "core::option::Option::<T>::and_then") and len(e["args"]) >= 2:
        clo = strip(e["args"][-1])
        if clo.get("k") == "Closure":
            cb = facts.body(clo["closure"])
            if cb is not None:
                _, t = closure_tail(facts, cb)
                if t is not None:
                    out |= flows(facts, cb, t, dict(env, **let_inits(facts.root(cb))), depth + 1)
    elif k == "Call" and callee(e) == "core::bool::<impl bool>::then_some" and len(e["args"]) == 2:
        out |= flows(facts, b, e["args"][1], env, depth + 1)
    elif k in ("Cast", "PointerCoercion"):
        out |= flows(facts, b, e["e"], env, depth + 1)
    return out


def let_inits(root):
    env = {}
    for n in walk(root):
        if n.get("k") == "Block":
            for s in n["stmts"]:
                if s["s"] == "let" and s["pat"].get("k") == "Binding" and s.get("init") is not None:
                    env[s["pat"]["v"]] = s["init"]
    return env


def builder_chain(n):
    """calls in a builder chain `x.with_children(..).with_backward_op(..)` rooted at n"""
    out = []
    n = strip(n)
    while isinstance(n, dict) and n.get("k") == "Call" and resolved(n) in (WITH_CHILDREN, WITH_BOP):
        out.append(n)
        n = strip(n["args"][0])
    return out


def attached_arity(facts, b, source, depth=0):
    """Number of children recorded together with the derivative closure `source` (a
    ('closure', def) or ('var', v) item) inside body b.  Returns list of (arity|None, why)."""
    results = []
    root = facts.root(b)
    env = let_inits(root)
    for n in walk(root):
        if n.get("k") != "Call":
            continue
        r = resolved(n)
        for i, a in enumerate(n["args"]):
            if source not in flows(facts, b, a, env):
                continue
            if r == WITH_BOP and i == 1:
                # find the builder chain containing this call
                found = None
                for m in walk(root):
                    ch = builder_chain(m)
                    if any(x is n for x in ch):
                        wc = [x for x in ch if resolved(x) == WITH_CHILDREN]
                        if wc:
                            found = wc[0]
                            break
                if found is None:
                    results.append((None, "with_backward_op without with_children in the same builder chain"))
                else:
                    el = vec_literal_elems(found["args"][1])
                    results.append((len(el), "with_children(vec![..; %d])" % len(el)) if el is not None else (None, "children not a vec! literal"))
            elif r == SLICED_OP and i == 2:
                arr = n["args"][0]
                av = var_of(arr)
                if av and av in env:
                    arr = env[av]
                el = vec_literal_elems(arr)
                results.append((len(el), "sliced_op(vec![..; %d], ..)" % len(el)) if el is not None else (None, "sliced_op arrays not a vec! literal"))
            else:
                c = n.get("callee") or {}
                if c.get("resolved_local") and depth < 2:
                    cb = facts.body(c["resolved"])
                    if cb is not None:
                        ps = [p for p in facts.params(cb) if p.get("pat")]
                        if i < len(ps) and ps[i]["pat"].get("k") == "Binding":
                            sub = attached_arity(facts, cb, ("var", ps[i]["pat"]["v"]), depth + 1)
                            results.extend(sub if sub else [(None, "forwarded to %s which does not attach it" % c["resolved"])])
                        else:
                            results.append((None, "forwarded through a pattern parameter"))
    return results


def slot_form(e, tvar):
    """Classify one slot expression of the closure's result vector."""
    e = strip(e)
    if e.get("k") == "If" and e.get("else") is not None:
        cond = peel(e["cond"])
        idx = None
        if cond.get("k") == "Index" and var_of(cond["e"]) == tvar:
            idx = lit_value(cond["i"])
        elif cond.get("k") == "Call" and callee(cond) == "core::ops::index::Index::index" and var_of(cond["args"][0]) == tvar:
            idx = lit_value(cond["args"][1])
        th = _tail_value(e["then"])
        el = _tail_value(e["else"])
        if idx is None and cond.get("k") == "LogicalOp" and _is_some(th) and _is_none(el):
            # a conjunction / disjunction of flags: Some under more (or fewer) conditions than the slot's own flag
            flags = []
            ok_ = True
            for part in (cond["l"], cond["r"]):
                pp = peel(part)
                if pp.get("k") == "Index" and var_of(pp["e"]) == tvar and isinstance(lit_value(pp["i"]), int):
                    flags.append(lit_value(pp["i"]))
                elif pp.get("k") == "Call" and callee(pp) == "core::ops::index::Index::index" and var_of(pp["args"][0]) == tvar and isinstance(lit_value(pp["args"][1]), int):
                    flags.append(lit_value(pp["args"][1]))
                else:
                    ok_ = False
            if ok_ and len(flags) == 2:
                return ("multi-gated", (cond["op"], tuple(flags)), th["fields"][0]["e"])
        if idx is not None and _is_some(th) and _is_none(el):
            return ("gated", idx, th["fields"][0]["e"])
        if idx is not None and _is_none(th) and _is_some(el):
            return ("inverted", idx, el["fields"][0]["e"])
        if idx is None and cond.get("k") == "UpvarRef" and (cond.get("ty") or "") == "bool" and ((_is_some(th) and _is_none(el)) or (_is_none(th) and _is_some(el))):
            # gated by a Boolean captured from the constructor: whatever it is, it is not the operand's flag of THIS pass (the flags are the closure's argument)
            return ("captured-gate", cond["v"], None)
        return ("other-if", None, None)
    if e.get("k") == "Call" and callee(e) in ("core::bool::<impl bool>::then", "core::bool::<impl bool>::then_some") and len(e["args"]) == 2:
        cond = peel(e["args"][0])
        idx = None
        if cond.get("k") == "Index" and var_of(cond["e"]) == tvar:
            idx = lit_value(cond["i"])
        elif cond.get("k") == "Call" and callee(cond) == "core::ops::index::Index::index" and var_of(cond["args"][0]) == tvar:
            idx = lit_value(cond["args"][1])
        if idx is not None:
            return ("gated", idx, e["args"][1])
        return ("other-if", None, None)
    if _is_some(e):
        return ("some", None, e["fields"][0]["e"])
    if _is_none(e):
        return ("none", None, None)
    if e.get("k") == "Call" and callee(e) in ("core::option::Option::<T>::filter", "core::option::Option::<T>::take_if") and e["args"]:
        return ("filtered", None, None)
    return ("other", None, None)


def _tail(n):
    n = strip(n)
    while isinstance(n, dict) and n.get("k") == "Block":
        if n["stmts"] or n.get("e") is None:
            return n
        n = strip(n["e"])
    return n


def _tail_value(n):
    """the value a block evaluates to, looking past its (let) statements"""
    n = strip(n)
    while isinstance(n, dict) and n.get("k") == "Block" and n.get("e") is not None:
        n = strip(n["e"])
    return n


def _is_some(n):
    return isinstance(n, dict) and n.get("k") == "Adt" and n["adt"] == OPTION and n["variant"] == "Some"


def _is_none(n):
    return isinstance(n, dict) and n.get("k") == "Adt" and n["adt"] == OPTION and n["variant"] == "None"


def is_none_literal_(n):
    n = strip(n)
    return isinstance(n, dict) and n.get("k") == "Adt" and (n.get("adt") or "").endswith("option::Option") and n.get("variant") == "None"


def closure_slots(facts, b):
    """(slots list | None, tracked-flags param var, why)"""
    stmts, tail = closure_tail(facts, b)
    if tail is None:
        return None, None, "closure has no tail expression"
    env = {}
    for s in stmts:
        if s["s"] == "let" and s["pat"].get("k") == "Binding" and s.get("init") is not None:
            env[s["pat"]["v"]] = s["init"]
    t = tail
    n = 0
    while var_of(t) and t.get("k") == "VarRef" and var_of(t) in env and n < 4:
        t = strip(env[var_of(t)])
        n += 1
    elems = vec_literal_elems(t)
    if elems is None and var_of(tail) and strip(tail).get("k") == "VarRef" and t.get("k") == "Call" \
            and callee(t) in ("alloc::vec::Vec::<T>::new", "alloc::vec::Vec::<T>::with_capacity"):
        # a vector built by pushing the slots one after the other (straight-line statements only)
        v = var_of(tail)
        pushes = []
        clean = True
        for s_ in stmts:
            e_ = strip(s_.get("e")) if s_["s"] == "expr" else None
            if e_ is not None and e_.get("k") == "Call" and callee(e_) == "alloc::vec::Vec::<T, A>::push" and var_of(e_["args"][0]) == v:
                pushes.append(e_["args"][1])
            elif e_ is not None and any(x.get("k") in ("VarRef", "UpvarRef") and x["v"] == v for x in walk(e_)):
                clean = False
        if clean and pushes:
            elems = pushes
    ps0 = param_vars(facts, b)
    tvar0 = None
    params0 = [p for p in facts.params(b) if p.get("pat")]
    if len(params0) >= 2 and params0[1]["pat"].get("k") == "Binding":
        tvar0 = params0[1]["pat"]["v"]
    if elems is None and t.get("k") == "Call" and callee(t) == "core::iter::traits::iterator::Iterator::collect":
        src = strip(t["args"][0])
        # once(a).chain(once(b)).chain(once(c))
        parts = []

        def unchain(e):
            e = strip(e)
            if e.get("k") == "Call" and callee(e) == "core::iter::traits::iterator::Iterator::chain":
                return unchain(e["args"][0]) and unchain(e["args"][1])
            if e.get("k") == "Call" and callee(e) in ("core::iter::sources::once::once", "core::option::Option::<T>::into_iter"):
                parts.append(e["args"][0])
                return True
            if e.get("k") == "Call" and callee(e) == "core::iter::traits::collect::IntoIterator::into_iter":
                return unchain(e["args"][0])
            return False
        if unchain(src) and parts:
            elems = parts
        # t.iter().map(|&b| b.then(|| e)) : one slot per flag, each gated on its own flag
        if elems is None and src.get("k") == "Call" and callee(src) == "core::iter::traits::iterator::Iterator::map":
            it = peel(src["args"][0])
            while isinstance(it, dict) and it.get("k") == "Call" and callee(it) in (
                    "core::slice::<impl [T]>::iter", "core::iter::traits::iterator::Iterator::copied", "core::iter::traits::iterator::Iterator::cloned",
                    "core::iter::traits::collect::IntoIterator::into_iter"):
                it = peel(it["args"][0])
            clo = strip(src["args"][1])
            if var_of(it) == tvar0 and clo.get("k") == "Closure":
                cb = facts.body(clo["closure"])
                _, ct = closure_tail(facts, cb)
                cps = [v for v, _, _, _ in param_vars(facts, cb)]
                ct = strip(ct) if ct is not None else None
                if ct is not None and ct.get("k") == "Call" and callee(ct) in ("core::bool::<impl bool>::then", "core::bool::<impl bool>::then_some") \
                        and var_of(ct["args"][0]) in cps:
                    return [{"k": "UniformGated", "e": ct["args"][1]}], tvar0, ""
    if elems is None and var_of(tail) and strip(tail).get("k") == "VarRef" and t.get("k") == "Call" and callee(t) == "alloc::vec::from_elem" \
            and _is_none(strip(t["args"][0])) and isinstance(lit_value(t["args"][1]), int):
        # vec![None; n] followed by `if t[i] { v[i] = Some(e) }`
        v = var_of(tail)
        n_ = lit_value(t["args"][1])
        filled = {}
        clean = True
        for s_ in stmts:
            e_ = strip(s_.get("e")) if s_["s"] == "expr" else None
            if e_ is None:
                continue
            if e_.get("k") == "If" and e_.get("else") is None:
                body = _tail_value(e_["then"]) if strip(e_["then"]).get("e") is not None else None
                asg = [x for x in walk(e_["then"]) if x.get("k") == "Assign"]
                if len(asg) == 1:
                    l = peel(asg[0]["l"])
                    idx = None
                    if l.get("k") == "Call" and callee(l) in ("core::ops::index::IndexMut::index_mut",) and var_of(l["args"][0]) == v:
                        idx = lit_value(l["args"][1])
                    elif l.get("k") == "Index" and var_of(l["e"]) == v:
                        idx = lit_value(l["i"])
                    if isinstance(idx, int) and 0 <= idx < n_ and idx not in filled:
                        filled[idx] = {"k": "If", "cond": e_["cond"], "then": asg[0]["r"], "else": {"k": "Adt", "adt": OPTION, "variant": "None", "fields": []},
                                       "sp": e_.get("sp"), "ty": ""}
                        continue
            if any(x.get("k") in ("VarRef", "UpvarRef") and x["v"] == v for x in walk(e_)):
                clean = False
        if clean:
            elems = [filled.get(i, {"k": "Adt", "adt": OPTION, "variant": "None", "fields": [], "sp": t.get("sp")}) for i in range(n_)]
    if elems is None:
        return None, None, "the closure's result is not a vec![..] literal: %s" % show(t)[:100]
    # slots bound to lets first
    slots = []
    for e in elems:
        e = strip(e)
        m = 0
        while var_of(e) and e.get("k") == "VarRef" and var_of(e) in env and m < 4:
            e = strip(env[var_of(e)])
            m += 1
        slots.append(e)
    ps = param_vars(facts, b)
    tvar = ps[1][0] if len(ps) >= 2 else None
    if len(ps) < 3:
        # `_` patterns produce no binding: recover positions from the parameter list
        params = [p for p in facts.params(b) if p.get("pat")]
        tvar = None
        if len(params) >= 2 and params[1]["pat"].get("k") == "Binding":
            tvar = params[1]["pat"]["v"]
    return slots, tvar, ""


def single_operand_attach_only_if_tracked(facts, ctor):
    """True if the constructor attaches only under assignments where its (single) operand is tracked."""
    rows, variables, err = TE.evaluate_constructor(facts, ctor)
    if rows is None:
        return False
    ops = TE.operand_params(facts, ctor)
    for asg, res, e, _ in rows:
        if e is not None or not isinstance(res, TE.Arr):
            return False
        if res.same is not None:
            continue
        if res.tracked and not any(asg.get(("T", name)) for name, _, _ in ops):
            return False
    return True


def _arity_from_evaluator(facts, ctor):
    rows, variables, err = TE.evaluate_constructor(facts, ctor)
    if rows is None:
        return None
    ks = set()
    for asg, res, e, _ in rows:
        if e is not None or not isinstance(res, TE.Arr):
            return None
        if res.same is None and res.tracked:
            ks.add(len(res.children or []))
    return sorted(ks) if ks else None


def r9_slot_arity_and_gate(facts):
    """R9: one adjoint slot per recorded operand, slot i gated on operand i."""
    c = Ctx("R9", facts, "one adjoint slot per recorded operand, slot i gated on operand i")
    bws = [b for b in facts.closures() if F.is_backward_closure(b)]
    c.floor("backward closures", len(bws), 17)
    for b in bws:
        where = "%s:%d" % (F.rel(b["file"]), b["sp"][0])
        inst = "closure:%s" % b["def"]
        slots, tvar, why = closure_slots(facts, b)
        if slots is None:
            c.unk(inst + "#arity", where, why)
            continue
        parent = facts.body(b["root"])
        # the closure may be nested directly in the constructor only
        if b["parent"] != b["root"]:
            # allowed when the enclosing closures are plain (e.g. `cond.then(|| Rc::new(move |c, t, x| ..))`)
            pb = facts.body(b["parent"])
            nested_in_backward = False
            while pb is not None and pb["kind"] == "Closure":
                if F.is_backward_closure(pb):
                    nested_in_backward = True
                pb = facts.body(pb["parent"])
            if nested_in_backward:
                c.unk(inst + "#arity", where, "backward closure nested inside another backward closure")
                continue
        if len(slots) == 1 and slots[0].get("k") == "UniformGated":
            c.ok(inst + "#arity", where, "one slot per flag of the mask (`t.iter().map(|&b| b.then(..))`): arity equals the number of recorded operands by construction")
            c.ok(inst + "#slot*", loc(b, slots[0]["e"]), "every slot is Some only if its own flag is set")
            continue
        ar = attached_arity(facts, parent, ("closure", b["def"]))
        if not ar:
            c.unk(inst + "#arity", where, "cannot find where the closure is attached in %s" % parent["def"])
            continue
        bad = [(k, w) for k, w in ar if k is None]
        if bad:
            # the children vector is not a literal: ask the guard evaluator how many operands are recorded
            ks = _arity_from_evaluator(facts, parent)
            if ks is None:
                c.unk(inst + "#arity", where, "attachment not understood: %s" % "; ".join(w for _, w in bad))
                continue
            ar = [(k, "evaluated: %d operands recorded" % k) for k in ks]
        ks = {k for k, _ in ar}
        if ks != {len(slots)}:
            c.bad(inst + "#arity", where,
                  "closure returns %d slot(s) but %s record(s) %s operand(s) as children (%s): a tracked operand without a slot gets no "
                  "gradient and its consumer count is never decremented"
                  % (len(slots), parent["def"], sorted(ks), "; ".join(w for _, w in ar)))
            continue
        c.ok(inst + "#arity", where, "%d slot(s) = %d recorded operand(s) (%s)" % (len(slots), len(slots), ar[0][1]))
        # the closure indexes its operand / flag slices only below the number of recorded operands
        cps_ = [p_ for p_ in facts.params(b) if p_.get("pat")]
        idx_vars = {p_["pat"]["v"]: nm for p_, nm in zip(cps_[:2], ("operands", "flags")) if p_["pat"].get("k") == "Binding"}
        oob = None
        for nb_ in facts.nested(b):
            for x in walk(facts.root(nb_)):
                base_, i_ = None, None
                if x.get("k") == "Index":
                    base_, i_ = x["e"], x["i"]
                elif x.get("k") == "Call" and callee(x) == "core::ops::index::Index::index" and len(x["args"]) == 2:
                    base_, i_ = x["args"][0], x["args"][1]
                if base_ is None:
                    continue
                bv = var_of(peel(base_))
                iv = lit_value(i_)
                if bv in idx_vars and isinstance(iv, int) and not isinstance(iv, bool) and iv >= len(slots):
                    oob = oob or (nb_, x, idx_vars[bv], iv)
        if oob:
            c.bad(inst + "#operand-index", loc(oob[0], oob[1]), "the derivative reads %s[%d] but only %d operand(s) are recorded: it panics (index out of bounds) whenever it runs" % (oob[2], oob[3], len(slots)))
        else:
            c.ok(inst + "#operand-index", where, "operand / flag indices stay below the number of recorded operands", nontrivial=False)
        for i, s in enumerate(slots):
            form, idx, val = slot_form(s, tvar)
            sinst = "%s#slot%d" % (inst, i)
            swhere = loc(b, s)
            if form == "gated":
                c.check(idx == i, sinst, swhere, "slot %d is Some only if t[%d]" % (i, i),
                        "slot %d is gated on t[%s]: operand %d's gradient depends on another operand's tracking flag" % (i, idx, i))
            elif form == "some":
                if len(slots) == 1 and single_operand_attach_only_if_tracked(facts, parent):
                    c.ok(sinst, swhere, "unconditional Some for the single operand; the constructor attaches only if that operand is tracked (R8 evaluation)")
                else:
                    c.bad(sinst, swhere, "unconditional Some in slot %d: an untracked operand would be delivered to (its consumer counter underflows)" % i)
            elif form == "none":
                c.bad(sinst, swhere, "slot %d is unconditionally None: operand %d never receives its gradient" % (i, i))
            elif form == "inverted":
                c.bad(sinst, swhere, "slot %d is Some exactly when t[%s] is false" % (i, idx))
            elif form == "multi-gated":
                op_, fl_ = idx
                if op_ == "And":
                    c.bad(sinst, swhere, "slot %d is Some only when t[%d] AND t[%d] hold: with operand %d tracked and the other untracked it receives no adjoint (and its consumer counter is not decremented)"
                          % (i, fl_[0], fl_[1], i))
                else:
                    c.bad(sinst, swhere, "slot %d is Some when t[%d] OR t[%d] holds: an untracked operand %d is delivered to when the other one is tracked" % (i, fl_[0], fl_[1], i))
            elif form == "captured-gate":
                c.bad(sinst, swhere, "slot %d is Some depending on `%s`, a Boolean fixed when the operation was built, not on t[%d], the operand's tracking flag of this pass: an untracked "
                      "operand %d is delivered to (its consumer counter underflows) or a tracked one is not" % (i, str(idx).split("#")[0], i, i))
            elif form == "filtered":
                c.bad(sinst, swhere, "slot %d is passed through `Option::filter`: whether operand %d receives its adjoint depends on a predicate on the value (a tracked operand may get None: "
                      "its consumer counter is then not decremented)" % (i, i))
            else:
                c.unk(sinst, swhere, "slot %d has an unrecognised form: %s" % (i, show(s)[:120]))
        # early `return`s of the closure deliver slots as well: same arity, same gating
        own_returns = [(n, ctx_) for n, ctx_ in F.walk_ctx(facts.root(b)) if n.get("k") == "Return" and n.get("e") is not None]
        for ri, (rn, rctx) in enumerate(own_returns):
            rinst = "%s#return%d" % (inst, ri)
            relems = vec_literal_elems(strip(rn["e"]))
            # flags the guard of this return fixes: `!t[i]` / `t[i]` conjuncts on the path
            known = {}

            def learn_(cnd, truth):
                cnd = strip(cnd)
                if not isinstance(cnd, dict):
                    return
                if cnd.get("k") == "LogicalOp" and ((cnd["op"] == "And" and truth) or (cnd["op"] == "Or" and not truth)):
                    learn_(cnd["l"], truth)
                    learn_(cnd["r"], truth)
                    return
                if cnd.get("k") == "Unary" and cnd.get("op") == "Not":
                    return learn_(cnd["e"], not truth)
                if cnd.get("k") == "Call" and callee(cnd) == "core::ops::bit::Not::not" and cnd["args"]:
                    return learn_(cnd["args"][0], not truth)
                pe = peel(cnd)
                base_, i_ = None, None
                if isinstance(pe, dict) and pe.get("k") == "Index":
                    base_, i_ = pe["e"], pe["i"]
                elif isinstance(pe, dict) and pe.get("k") == "Call" and callee(pe) == "core::ops::index::Index::index" and len(pe["args"]) == 2:
                    base_, i_ = pe["args"][0], pe["args"][1]
                if base_ is not None and var_of(peel(base_)) == tvar and isinstance(lit_value(i_), int):
                    known[lit_value(i_)] = truth
            for cnd_, truth_ in F.path_facts(rctx):
                learn_(cnd_, truth_)
            if relems is None:
                re_ = strip(rn["e"])
                if isinstance(re_, dict) and re_.get("k") == "Call" and callee(re_) == "alloc::vec::from_elem" and len(re_["args"]) == 2 \
                        and is_none_literal_(re_["args"][0]) and isinstance(lit_value(re_["args"][1]), int):
                    relems = [re_["args"][0]] * lit_value(re_["args"][1])       # vec![None; n]
            if relems is None:
                c.unk(rinst, loc(b, rn), "early return of a value that is not a slot vector literal: %s" % show(rn["e"])[:80])
                continue
            if len(relems) != len(slots):
                c.bad(rinst, loc(b, rn), "an early return delivers %d slot(s) where the closure's result has %d" % (len(relems), len(slots)))
                continue
            for i, s_ in enumerate(relems):
                form, idx, val = slot_form(s_, tvar)
                if form == "gated" and idx == i:
                    continue
                if form == "some" and len(slots) == 1 and single_operand_attach_only_if_tracked(facts, parent):
                    continue
                if form == "none" and known.get(i) is False:
                    continue        # the guard of the return says this operand is untracked
                if form == "none":
                    c.bad(rinst, loc(b, rn), "on an early return slot %d is None although the guard of the return does not say that operand %d is untracked: a tracked operand %d then receives no adjoint "
                          "on that path, its consumer counter is not decremented and it (and everything below it) is left out of this and later passes" % (i, i, i))
                elif form in ("gated", "inverted"):
                    c.bad(rinst, loc(b, rn), "on an early return slot %d is gated on t[%s]%s" % (i, idx, " negated" if form == "inverted" else ""))
                elif form == "some":
                    c.bad(rinst, loc(b, rn), "on an early return slot %d is Some whatever its flag" % i)
                else:
                    c.unk(rinst, loc(b, rn), "slot %d of an early return has an unrecognised form: %s" % (i, show(s_)[:80]))
                break
            else:
                c.ok(rinst, loc(b, rn), "the early return delivers the same slots under the same flags")
    return c
