"""Engine rules over Array::backward / Array::propagate_consumers and the backward closures:
R9 SLOT-ARITY-AND-GATE, R10 FLAG-WRITERS-AND-PAIRING, R11 SHAPE-TYPESTATE, R14 DEFAULT-SEED,
R23 ENGINE-STATE-LAYERING, R24 COUNT-PROTOCOL, R25 ACCUMULATE-ARMS.  See DESIGN.md section 3."""

from . import facts as F
from . import trackeval as TE
from .core import Ctx
from .facts import ARRAY, callee, resolved, strip, peel, walk, walk_ctx, loc, field_chain, var_of, lit_value
from .repr_rules import vec_literal_elems, self_var, param_vars, MUTATING
from .op_rules import (BOP_MARK, WITH_CHILDREN, WITH_BOP, SLICED_OP, op_constructors, is_none_literal, ATTACH_PRIMITIVES)
from .show import show

FN_CALL = "core::ops::function::Fn::call"
CELL = "core::cell::Cell::<T>::"
OPTION = "core::option::Option"

ENGINE_FN_NAMES = ("backward", "propagate_consumers")


# ------------------------------------------------------------------ anchors

def engine_bodies(facts):
    out = {}
    for b in facts.fns():
        if b.get("impl_self") == ARRAY and b.get("impl_trait_def") is None and b.get("name") in ENGINE_FN_NAMES:
            out[b["name"]] = b
    return out


def field_roles(facts):
    """Engine fields of Array, identified by type: counter Rc<Cell<usize>>, pending delta
    Rc<Cell<Option<Array>>>, gradient Rc<RefCell<Option<Array>>>, derivative Option<Rc<dyn Fn..>>."""
    roles = {}
    for f in facts.adt_fields(ARRAY):
        t = f["ty"]
        if t == "alloc::rc::Rc<core::cell::Cell<usize>>":
            roles.setdefault("counter", []).append(f["name"])
        elif t == "alloc::rc::Rc<core::cell::Cell<core::option::Option<corgi::array::Array>>>":
            roles.setdefault("delta", []).append(f["name"])
        elif t == "alloc::rc::Rc<core::cell::RefCell<core::option::Option<corgi::array::Array>>>":
            roles.setdefault("gradient", []).append(f["name"])
        elif t.startswith("core::option::Option<alloc::rc::Rc<") and BOP_MARK in t:
            roles.setdefault("derivative", []).append(f["name"])
        elif t == "alloc::rc::Rc<alloc::vec::Vec<corgi::array::Array>>":
            roles.setdefault("edges", []).append(f["name"])
        elif t == "core::cell::Cell<bool>":
            roles.setdefault("flags", []).append(f["name"])
    return roles


def role(facts, name):
    r = field_roles(facts).get(name, [])
    return r[0] if len(r) == 1 else None


def invocation_sites(facts):
    """Calls of a derivative closure: Fn::call whose callee object has the BackwardOp type."""
    out = []
    for b in facts.bodies:
        for n, ctx in walk_ctx(facts.root(b)):
            if n.get("k") == "Call" and callee(n) in (FN_CALL, "core::ops::function::FnMut::call_mut", "core::ops::function::FnOnce::call_once"):
                g = (n.get("callee") or {}).get("gargs") or []
                if g and BOP_MARK.replace("'a ", "").replace("'b ", "").replace("'c ", "") in g[0].replace("'a ", "").replace("'b ", "").replace("'c ", ""):
                    out.append((b, n, ctx))
    return out


def closure_tail(facts, b):
    """The value a closure/function body evaluates to, looking through statement blocks:
    (prefix statements, tail expr)."""
    root = strip(facts.root(b))
    stmts = []
    while isinstance(root, dict) and root.get("k") == "Block":
        stmts.extend(root["stmts"])
        if root.get("e") is None:
            return stmts, None
        root = strip(root["e"])
    return stmts, root


# ------------------------------------------------------------------ R9

def flows(facts, b, e, env, depth=0):
    """Closure definitions / parameter variables an expression may evaluate to."""
    out = set()
    e = strip(e)
    if e is None or depth > 12:
        return out
    k = e.get("k")
    if k == "Closure":
        out.add(("closure", e["closure"]))
    elif k in ("VarRef", "UpvarRef"):
        v = e["v"]
        if v in env:
            out |= flows(facts, b, env[v], env, depth + 1)
        else:
            out.add(("var", v))
    elif k == "If":
        out |= flows(facts, b, e["then"], env, depth + 1)
        if e.get("else") is not None:
            out |= flows(facts, b, e["else"], env, depth + 1)
    elif k == "Match":
        for a in e["arms"]:
            out |= flows(facts, b, a["body"], env, depth + 1)
    elif k == "Block":
        if e.get("e") is not None:
            out |= flows(facts, b, e["e"], env, depth + 1)
    elif k == "Adt" and e["adt"] == OPTION and e["variant"] == "Some":
        out |= flows(facts, b, e["fields"][0]["e"], env, depth + 1)
    elif k == "Call" and callee(e) in ("alloc::rc::Rc::<T>::new", "alloc::boxed::Box::<T>::new", "core::clone::Clone::clone") and e["args"]:
        out |= flows(facts, b, e["args"][0], env, depth + 1)
    elif k in ("Borrow", "Deref"):
        out |= flows(facts, b, e["e"], env, depth + 1)
    elif k == "Call" and callee(e) in ("core::bool::<impl bool>::then", "core::option::Option::<T>::map", "core::option::Option::<T>::map_or",
                                       "core::option::Option::<T>::or_else", "core::option::Option::<T>::and_then") and len(e["args"]) >= 2:
        clo = strip(e["args"][-1])
        if clo.get("k") == "Closure":
            cb = facts.body(clo["closure"])
            if cb is not None:
                _, t = closure_tail(facts, cb)
                if t is not None:
                    out |= flows(facts, cb, t, dict(env, **let_inits(facts.root(cb))), depth + 1)
    elif k == "Call" and callee(e) == "core::bool::<impl bool>::then_some" and len(e["args"]) == 2:
        out |= flows(facts, b, e["args"][1], env, depth + 1)
    elif k in ("Cast", "PointerCoercion"):
        out |= flows(facts, b, e["e"], env, depth + 1)
    return out


def let_inits(root):
    env = {}
    for n in walk(root):
        if n.get("k") == "Block":
            for s in n["stmts"]:
                if s["s"] == "let" and s["pat"].get("k") == "Binding" and s.get("init") is not None:
                    env[s["pat"]["v"]] = s["init"]
    return env


def builder_chain(n):
    """calls in a builder chain `x.with_children(..).with_backward_op(..)` rooted at n"""
    out = []
    n = strip(n)
    while isinstance(n, dict) and n.get("k") == "Call" and resolved(n) in (WITH_CHILDREN, WITH_BOP):
        out.append(n)
        n = strip(n["args"][0])
    return out


def attached_arity(facts, b, source, depth=0):
    """Number of children recorded together with the derivative closure `source` (a
    ('closure', def) or ('var', v) item) inside body b.  Returns list of (arity|None, why)."""
    results = []
    root = facts.root(b)
    env = let_inits(root)
    for n in walk(root):
        if n.get("k") != "Call":
            continue
        r = resolved(n)
        for i, a in enumerate(n["args"]):
            if source not in flows(facts, b, a, env):
                continue
            if r == WITH_BOP and i == 1:
                # find the builder chain containing this call
                found = None
                for m in walk(root):
                    ch = builder_chain(m)
                    if any(x is n for x in ch):
                        wc = [x for x in ch if resolved(x) == WITH_CHILDREN]
                        if wc:
                            found = wc[0]
                            break
                if found is None:
                    results.append((None, "with_backward_op without with_children in the same builder chain"))
                else:
                    el = vec_literal_elems(found["args"][1])
                    results.append((len(el), "with_children(vec![..; %d])" % len(el)) if el is not None else (None, "children not a vec! literal"))
            elif r == SLICED_OP and i == 2:
                arr = n["args"][0]
                av = var_of(arr)
                if av and av in env:
                    arr = env[av]
                el = vec_literal_elems(arr)
                results.append((len(el), "sliced_op(vec![..; %d], ..)" % len(el)) if el is not None else (None, "sliced_op arrays not a vec! literal"))
            else:
                c = n.get("callee") or {}
                if c.get("resolved_local") and depth < 2:
                    cb = facts.body(c["resolved"])
                    if cb is not None:
                        ps = [p for p in facts.params(cb) if p.get("pat")]
                        if i < len(ps) and ps[i]["pat"].get("k") == "Binding":
                            sub = attached_arity(facts, cb, ("var", ps[i]["pat"]["v"]), depth + 1)
                            results.extend(sub if sub else [(None, "forwarded to %s which does not attach it" % c["resolved"])])
                        else:
                            results.append((None, "forwarded through a pattern parameter"))
    return results


def slot_form(e, tvar):
    """Classify one slot expression of the closure's result vector."""
    e = strip(e)
    if e.get("k") == "If" and e.get("else") is not None:
        cond = peel(e["cond"])
        idx = None
        if cond.get("k") == "Index" and var_of(cond["e"]) == tvar:
            idx = lit_value(cond["i"])
        elif cond.get("k") == "Call" and callee(cond) == "core::ops::index::Index::index" and var_of(cond["args"][0]) == tvar:
            idx = lit_value(cond["args"][1])
        th = _tail(e["then"])
        el = _tail(e["else"])
        if idx is not None and _is_some(th) and _is_none(el):
            return ("gated", idx, th["fields"][0]["e"])
        if idx is not None and _is_none(th) and _is_some(el):
            return ("inverted", idx, el["fields"][0]["e"])
        return ("other-if", None, None)
    if e.get("k") == "Call" and callee(e) in ("core::bool::<impl bool>::then", "core::bool::<impl bool>::then_some") and len(e["args"]) == 2:
        cond = peel(e["args"][0])
        idx = None
        if cond.get("k") == "Index" and var_of(cond["e"]) == tvar:
            idx = lit_value(cond["i"])
        elif cond.get("k") == "Call" and callee(cond) == "core::ops::index::Index::index" and var_of(cond["args"][0]) == tvar:
            idx = lit_value(cond["args"][1])
        if idx is not None:
            return ("gated", idx, e["args"][1])
        return ("other-if", None, None)
    if _is_some(e):
        return ("some", None, e["fields"][0]["e"])
    if _is_none(e):
        return ("none", None, None)
    return ("other", None, None)


def _tail(n):
    n = strip(n)
    while isinstance(n, dict) and n.get("k") == "Block":
        if n["stmts"] or n.get("e") is None:
            return n
        n = strip(n["e"])
    return n


def _is_some(n):
    return isinstance(n, dict) and n.get("k") == "Adt" and n["adt"] == OPTION and n["variant"] == "Some"


def _is_none(n):
    return isinstance(n, dict) and n.get("k") == "Adt" and n["adt"] == OPTION and n["variant"] == "None"


def closure_slots(facts, b):
    """(slots list | None, tracked-flags param var, why)"""
    stmts, tail = closure_tail(facts, b)
    if tail is None:
        return None, None, "closure has no tail expression"
    env = {}
    for s in stmts:
        if s["s"] == "let" and s["pat"].get("k") == "Binding" and s.get("init") is not None:
            env[s["pat"]["v"]] = s["init"]
    t = tail
    n = 0
    while var_of(t) and t.get("k") == "VarRef" and var_of(t) in env and n < 4:
        t = strip(env[var_of(t)])
        n += 1
    elems = vec_literal_elems(t)
    if elems is None and var_of(tail) and strip(tail).get("k") == "VarRef" and t.get("k") == "Call" \
            and callee(t) in ("alloc::vec::Vec::<T>::new", "alloc::vec::Vec::<T>::with_capacity"):
        # a vector built by pushing the slots one after the other (straight-line statements only)
        v = var_of(tail)
        pushes = []
        clean = True
        for s_ in stmts:
            e_ = strip(s_.get("e")) if s_["s"] == "expr" else None
            if e_ is not None and e_.get("k") == "Call" and callee(e_) == "alloc::vec::Vec::<T, A>::push" and var_of(e_["args"][0]) == v:
                pushes.append(e_["args"][1])
            elif e_ is not None and any(x.get("k") in ("VarRef", "UpvarRef") and x["v"] == v for x in walk(e_)):
                clean = False
        if clean and pushes:
            elems = pushes
    if elems is None:
        return None, None, "the closure's result is not a vec![..] literal: %s" % show(t)[:100]
    # slots bound to lets first
    slots = []
    for e in elems:
        e = strip(e)
        m = 0
        while var_of(e) and e.get("k") == "VarRef" and var_of(e) in env and m < 4:
            e = strip(env[var_of(e)])
            m += 1
        slots.append(e)
    ps = param_vars(facts, b)
    tvar = ps[1][0] if len(ps) >= 2 else None
    if len(ps) < 3:
        # `_` patterns produce no binding: recover positions from the parameter list
        params = [p for p in facts.params(b) if p.get("pat")]
        tvar = None
        if len(params) >= 2 and params[1]["pat"].get("k") == "Binding":
            tvar = params[1]["pat"]["v"]
    return slots, tvar, ""


def single_operand_attach_only_if_tracked(facts, ctor):
    """True if the constructor attaches only under assignments where its (single) operand is tracked."""
    rows, variables, err = TE.evaluate_constructor(facts, ctor)
    if rows is None:
        return False
    ops = TE.operand_params(facts, ctor)
    for asg, res, e, _ in rows:
        if e is not None or not isinstance(res, TE.Arr):
            return False
        if res.same is not None:
            continue
        if res.tracked and not any(asg.get(("T", name)) for name, _, _ in ops):
            return False
    return True


def r9_slot_arity_and_gate(facts):
    """R9: one adjoint slot per recorded operand, slot i gated on operand i."""
    c = Ctx("R9", facts, "one adjoint slot per recorded operand, slot i gated on operand i")
    bws = [b for b in facts.closures() if F.is_backward_closure(b)]
    c.floor("backward closures", len(bws), 17)
    for b in bws:
        where = "%s:%d" % (F.rel(b["file"]), b["sp"][0])
        inst = "closure:%s" % b["def"]
        slots, tvar, why = closure_slots(facts, b)
        if slots is None:
            c.unk(inst + "#arity", where, why)
            continue
        parent = facts.body(b["root"])
        # the closure may be nested directly in the constructor only
        if b["parent"] != b["root"]:
            # allowed when the enclosing closures are plain (e.g. `cond.then(|| Rc::new(move |c, t, x| ..))`)
            pb = facts.body(b["parent"])
            nested_in_backward = False
            while pb is not None and pb["kind"] == "Closure":
                if F.is_backward_closure(pb):
                    nested_in_backward = True
                pb = facts.body(pb["parent"])
            if nested_in_backward:
                c.unk(inst + "#arity", where, "backward closure nested inside another backward closure")
                continue
        ar = attached_arity(facts, parent, ("closure", b["def"]))
        if not ar:
            c.unk(inst + "#arity", where, "cannot find where the closure is attached in %s" % parent["def"])
            continue
        bad = [(k, w) for k, w in ar if k is None]
        if bad:
            c.unk(inst + "#arity", where, "attachment not understood: %s" % "; ".join(w for _, w in bad))
            continue
        ks = {k for k, _ in ar}
        if ks != {len(slots)}:
            c.bad(inst + "#arity", where,
                  "closure returns %d slot(s) but %s record(s) %s operand(s) as children (%s): a tracked operand without a slot gets no "
                  "gradient and its consumer count is never decremented"
                  % (len(slots), parent["def"], sorted(ks), "; ".join(w for _, w in ar)))
            continue
        c.ok(inst + "#arity", where, "%d slot(s) = %d recorded operand(s) (%s)" % (len(slots), len(slots), ar[0][1]))
        for i, s in enumerate(slots):
            form, idx, val = slot_form(s, tvar)
            sinst = "%s#slot%d" % (inst, i)
            swhere = loc(b, s)
            if form == "gated":
                c.check(idx == i, sinst, swhere, "slot %d is Some only if t[%d]" % (i, i),
                        "slot %d is gated on t[%s]: operand %d's gradient depends on another operand's tracking flag" % (i, idx, i))
            elif form == "some":
                if len(slots) == 1 and single_operand_attach_only_if_tracked(facts, parent):
                    c.ok(sinst, swhere, "unconditional Some for the single operand; the constructor attaches only if that operand is tracked (R8 evaluation)")
                else:
                    c.bad(sinst, swhere, "unconditional Some in slot %d: an untracked operand would be delivered to (its consumer counter underflows)" % i)
            elif form == "none":
                c.bad(sinst, swhere, "slot %d is unconditionally None: operand %d never receives its gradient" % (i, i))
            elif form == "inverted":
                c.bad(sinst, swhere, "slot %d is Some exactly when t[%s] is false" % (i, idx))
            else:
                c.unk(sinst, swhere, "slot %d has an unrecognised form: %s" % (i, show(s)[:120]))
    return c


# ------------------------------------------------------------------ R10

FLAG_WRITE_METHODS = ("set", "replace", "swap", "take", "update", "get_mut", "as_ptr")


def r10_flag_writers_and_pairing(facts):
    """R10: who writes the tracking flags; stop/restore pairing around the derivative call."""
    c = Ctx("R10", facts, "tracking flags: writers, callers, and stop/restore pairing in the pass")
    flags = field_roles(facts).get("flags", [])
    c.floor("per-handle flag fields (Cell<bool>)", len(flags), 2)
    eng = engine_bodies(facts)
    c.floor("engine bodies", len(eng), 2)
    setters = {}    # body def -> [(field, method, node)]
    for b in facts.bodies:
        for n in walk(facts.root(b)):
            if n.get("k") == "Call" and (callee(n) or "").startswith(CELL) and n["args"]:
                m = callee(n).split("::")[-1]
                if m in FLAG_WRITE_METHODS:
                    root, chain = field_chain(n["args"][0])
                    if chain and chain[-1] in flags:
                        setters.setdefault(b["def"], []).append((chain[-1], m, n))
    allowed_setters = ("tracked", "untracked", "start_tracking", "stop_tracking")
    n_w = 0
    for d, ws in setters.items():
        b = facts.body(d)
        ok = b.get("impl_self") == ARRAY and b.get("impl_trait_def") is None and b.get("name") in allowed_setters
        for fld, m, n in ws:
            n_w += 1
            c.check(ok, "flag-writer:%s#%s" % (d, fld), loc(b, n),
                    "flag %s written by the flag API (%s)" % (fld, b.get("name")),
                    "flag %s is written (Cell::%s) outside tracked/untracked/start_tracking/stop_tracking" % (fld, m))
    c.floor("flag write sites", n_w, 6)
    # MIR: direct stores to the flag fields
    for b in facts.bodies:
        mir = b.get("mir")
        if not mir:
            continue
        for p in mir["field_places"]:
            if p["ctx"] in MUTATING and any(isinstance(e, dict) and e.get("adt") == ARRAY and e["field"] in flags for e in p["proj"]):
                c.bad("flag-store:%s" % b["def"], "%s:%d" % (F.rel(b["file"]), p["sp"][0]), "%s of a flag field in %s" % (p["ctx"], b["def"]))
    # callers of the flag API inside the library
    eng_defs = set()
    for e in eng.values():
        for x in facts.nested(e):
            eng_defs.add(x["def"])
    n_calls = 0
    for b in facts.bodies:
        for n in walk(facts.root(b)):
            if n.get("k") != "Call":
                continue
            r = resolved(n)
            if r in ("corgi::array::Array::start_tracking", "corgi::array::Array::stop_tracking"):
                n_calls += 1
                c.check(b["def"] in eng_defs, "flag-call:%s#%s" % (b["def"], r.split("::")[-1]), loc(b, n),
                        "%s called by the backward pass" % r.split("::")[-1],
                        "%s called outside Array::backward: library code changes the tracking flag of an existing array" % r.split("::")[-1])
            elif r in ("corgi::array::Array::tracked", "corgi::array::Array::untracked"):
                n_calls += 1
                recv = strip(n["args"][0])
                fresh = False
                why = ""
                if recv.get("k") == "Call" and (resolved(recv) or "").startswith("<corgi::array::Array as core::convert::From<"):
                    fresh, why = True, "on a freshly constructed array"
                elif recv.get("k") == "VarRef" and b.get("name") == "with_children" and b.get("impl_self") == ARRAY \
                        and recv["v"] == self_var(facts, b) and (b.get("inputs") or [""])[0] == ARRAY:
                    fresh, why = True, "on the by-value array under construction"
                c.check(fresh, "flag-call:%s#%s" % (b["def"], r.split("::")[-1]), loc(b, n),
                        "%s() %s" % (r.split("::")[-1], why),
                        "%s() applied to an existing array inside the library (%s)" % (r.split("::")[-1], show(recv)[:80]))
    c.floor("flag API call sites in the library", n_calls, 7)

    # (b) pairing
    bw = eng.get("backward")
    if not bw:
        return c
    sites = [s for s in invocation_sites(facts) if s[0]["def"] == bw["def"]]
    if len(sites) != 1:
        c.unk("pairing:invocation", "%s:%d" % (F.rel(bw["file"]), bw["sp"][0]), "expected one derivative invocation in backward, found %d" % len(sites))
        return c
    _, inv, _ctx = sites[0]
    edges = role(facts, "edges")
    selfv = self_var(facts, bw)
    # find the block whose statements contain the invocation
    holder = None
    for n in walk(facts.root(bw)):
        if n.get("k") == "Block":
            for i, s in enumerate(n["stmts"]):
                e = s.get("init") if s["s"] == "let" else s.get("e")
                if e is not None and any(x is inv for x in walk(e)):
                    # innermost block wins (keep overwriting while descending)
                    holder = (n, i)
    if holder is None:
        c.unk("pairing:block", loc(bw, inv), "invocation is not a statement of a block")
        return c
    blk, inv_i = holder

    def stmt_expr(s):
        return s.get("init") if s["s"] == "let" else s.get("e")

    def iterates_self_children(e):
        for x in walk(e):
            if x.get("k") == "Field" and x.get("name") == edges and var_of(x["e"]) == selfv:
                return True
        return False

    def closure_calls(e, fn):
        """does e (including closures passed inside it) call fn ? returns the closure bodies that do"""
        hits = []
        for x in walk(e):
            if x.get("k") == "Call" and resolved(x) == fn:
                hits.append(None)
            if x.get("k") == "Closure":
                cb = facts.body(x["closure"])
                if cb and any(y.get("k") == "Call" and resolved(y) == fn for y in walk(facts.root(cb))):
                    hits.append(cb)
        return hits

    saved = None
    saved_i = None
    for i, s in enumerate(blk["stmts"][:inv_i]):
        e = stmt_expr(s)
        if s["s"] == "let" and s["pat"].get("k") == "Binding" and e is not None and iterates_self_children(e) \
                and closure_calls(e, "corgi::array::Array::stop_tracking") and s["pat"]["ty"] == "alloc::vec::Vec<bool>":
            saved, saved_i = s["pat"]["v"], i
    c.check(saved is not None, "pairing:stop", loc(bw, inv),
            "operands are un-tracked before the derivative runs and their flags saved in a Vec<bool>",
            "no statement before the derivative call saves the operands' flags while stopping tracking")
    if saved is None:
        return c
    # (i) the saved vector is the closure's second argument
    tup = strip(inv["args"][1]) if len(inv["args"]) > 1 else None
    second = tup["fields"][1] if tup and tup.get("k") == "Tuple" and len(tup["fields"]) == 3 else None
    c.check(second is not None and var_of(second) == saved, "pairing:flags-argument", loc(bw, inv),
            "the saved flags are what the derivative closure receives as its tracked-mask",
            "the derivative closure's mask argument is not the vector of saved flags")
    first = tup["fields"][0] if tup and tup.get("k") == "Tuple" and len(tup["fields"]) == 3 else None
    fr, fchain = field_chain(first) if first is not None else (None, [])
    c.check(first is not None and var_of(fr) == selfv and fchain == [edges], "pairing:children-argument", loc(bw, inv),
            "the derivative closure receives self.%s (the recorded operands, in order)" % edges,
            "the derivative closure's operand argument is not self.%s" % edges)
    # (ii) restore after the invocation
    restore_i = None
    restore_ok = False
    why = "no statement after the derivative call restores the saved flags"
    for i in range(inv_i + 1, len(blk["stmts"])):
        s = blk["stmts"][i]
        e = stmt_expr(s)
        if e is None:
            continue
        uses_saved = any(x.get("k") in ("VarRef", "UpvarRef") and x["v"] == saved for x in walk(e))
        hits = closure_calls(e, "corgi::array::Array::start_tracking")
        if hits and iterates_self_children(e) and uses_saved:
            restore_i = i
            ok, why = _restore_is_guarded(facts, bw, e, saved)
            restore_ok = ok
            break
    c.check(restore_i is not None and restore_ok, "pairing:restore", loc(bw, blk["stmts"][restore_i].get("e")) if restore_i is not None else loc(bw, inv),
            "after the derivative call every operand whose saved flag was true is re-tracked (iteration over self.%s zipped with the saved flags, filtered on the flag)" % edges,
            why)
    # (iii) no early exit between stop and restore
    lo = saved_i if saved_i is not None else 0
    hi = restore_i if restore_i is not None else len(blk["stmts"]) - 1
    exits = []
    for s in blk["stmts"][lo:hi + 1]:
        e = stmt_expr(s)
        for x, xctx in walk_ctx(e):
            if x.get("k") == "Return":
                exits.append(x)
            if x.get("k") in ("Break", "Continue") and not any(fr[0] == "loop" for fr in xctx):
                exits.append(x)         # a break/continue that leaves the statement (loop-local ones do not)
            if x.get("k") == "Match" and str(x.get("source", "")).startswith("TryDesugar"):
                exits.append(x)
    c.check(not exits, "pairing:no-early-exit", loc(bw, inv), "no return/break/? between stop and restore",
            "early exit between stopping and restoring tracking flags")
    return c


def _restore_is_guarded(facts, bw, e, saved):
    """The start_tracking call must be control-dependent on the saved flag of the same position."""
    # form A: iterator chain  children.iter().zip(saved).filter(|(_, t)| *t).for_each(|(c, _)| c.start_tracking())
    e0 = strip(e)
    if e0.get("k") == "Call" and callee(e0) == "core::iter::traits::iterator::Iterator::for_each":
        src = strip(e0["args"][0])
        if src.get("k") == "Call" and callee(src) == "core::iter::traits::iterator::Iterator::filter":
            zipc = strip(src["args"][0])
            fclo = strip(src["args"][1])
            if not (zipc.get("k") == "Call" and callee(zipc) == "core::iter::traits::iterator::Iterator::zip"):
                return False, "restore filter is not applied to children zipped with the saved flags"
            zargs = [zipc["args"][0], zipc["args"][1]]
            pos = None
            for i, a in enumerate(zargs):
                if any(x.get("k") in ("VarRef", "UpvarRef") and x["v"] == saved for x in walk(a)):
                    pos = i
            if pos is None:
                return False, "the saved flags are not zipped with the operands"
            if fclo.get("k") != "Closure":
                return False, "filter predicate is not a closure literal"
            fb = facts.body(fclo["closure"])
            _, tail = closure_tail(facts, fb)
            t = peel(tail)
            binds = param_vars(facts, fb)
            # binding at tuple position `pos`
            flagvars = [v for v, _, ty, path in binds if path and path[-1] == str(pos) or (path and path[0] == str(pos))]
            flagvars = [v for v, _, ty, path in binds if [p for p in path if p != "*"] == [str(pos)]]
            if t.get("k") in ("VarRef", "UpvarRef") and t["v"] in flagvars:
                return True, ""
            return False, "the restore filter does not test the saved flag itself (found `%s`): operands would be re-tracked under the wrong condition" % show(tail)[:80]
        return False, "restore is an unfiltered for_each: every operand would become tracked"
    # form B: for loop with `if flag { c.start_tracking() }`
    for n, ctx in walk_ctx(e):
        if n.get("k") == "Call" and resolved(n) == "corgi::array::Array::start_tracking":
            for fr in ctx:
                if fr[0] == "if" and fr[2] == "then":
                    cond = peel(fr[1]["cond"])
                    if cond.get("k") in ("VarRef",) or (cond.get("k") == "Index" and var_of(cond["e"]) == saved):
                        return True, ""
            return False, "start_tracking is not guarded by the saved flag"
    return False, "restore statement not understood"


# ------------------------------------------------------------------ R11 / R14 / R25 share a model of `backward`

class PassModel:
    """Names the pieces of Array::backward that R11/R14/R25 talk about."""

    def __init__(self, facts):
        self.facts = facts
        self.ok = False
        eng = engine_bodies(facts)
        self.bw = eng.get("backward")
        if not self.bw:
            self.why = "Array::backward not found"
            return
        self.root = facts.root(self.bw)
        self.selfv = self_var(facts, self.bw)
        self.binds = F.bindings_of(self.root)
        self.f_delta = role(facts, "delta")
        self.f_grad = role(facts, "gradient")
        self.f_counter = role(facts, "counter")
        self.f_edges = role(facts, "edges")
        ps = param_vars(facts, self.bw)
        self.seedv = ps[1][0] if len(ps) > 1 else None
        self.ok = all([self.selfv, self.f_delta, self.f_grad, self.f_counter, self.f_edges, self.seedv])
        self.why = "" if self.ok else "engine fields / parameters not identified by type"

    # -- shape typing ---------------------------------------------------------
    def owner_of_dims(self, e):
        """if e denotes `n.dimensions` (possibly through deref/clone) return n's variable"""
        e = peel(e)
        if e.get("k") == "Call" and callee(e) in ("core::clone::Clone::clone", "alloc::slice::<impl [T]>::to_vec", "alloc::borrow::ToOwned::to_owned"):
            return self.owner_of_dims(e["args"][0])
        root, chain = field_chain(e)
        if chain == ["dimensions"] and var_of(root):
            return var_of(root)
        return None

    def shape(self, e, depth=0):
        """('owner', var) | ('raw', why)"""
        e = peel(e)
        if depth > 16 or not isinstance(e, dict):
            return ("raw", "too deep")
        k = e.get("k")
        if k in ("VarRef", "UpvarRef"):
            return self.shape_of_var(e["v"], depth + 1)
        if k == "Call":
            r = resolved(e)
            if r == "corgi::array::Array::flatten_to":
                n = self.owner_of_dims(e["args"][1])
                if n:
                    return ("owner", n)
                return ("raw", "flatten_to target is not some node's dimensions")
            if r == "corgi::array::arithmetic::<impl core::ops::arith::Add<&corgi::array::Array> for &corgi::array::Array>::add":
                a = self.shape(e["args"][0], depth + 1)
                b = self.shape(e["args"][1], depth + 1)
                if a[0] == "owner" and a == b:
                    return a
                return ("raw", "sum of %s and %s" % (a, b))
            if r == "<corgi::array::Array as core::clone::Clone>::clone":
                return self.shape(e["args"][0], depth + 1)
            if (r or "").startswith("<corgi::array::Array as core::convert::From<("):
                tup = strip(e["args"][0])
                if tup.get("k") == "Tuple":
                    n = self.owner_of_dims(tup["fields"][0])
                    if n:
                        return ("owner", n)
                return ("raw", "constructed with dimensions not taken from a node")
            return ("raw", "result of %s" % r)
        if k in ("If", "Match", "Block"):
            outs = []
            if k == "If":
                branches = [e["then"], e.get("else")]
            elif k == "Match":
                branches = [a["body"] for a in e["arms"]]
            else:
                branches = [e.get("e")]
            for b in branches:
                if b is None:
                    return ("raw", "missing branch")
                outs.append(self.shape(b, depth + 1))
            if all(o[0] == "owner" for o in outs) and len({o[1] for o in outs}) == 1:
                return outs[0]
            return ("raw", "branches disagree: %s" % outs)
        return ("raw", "expression %s" % k)

    def slot_owner(self, scrut):
        """scrutinee reads the content of n.delta or n.gradient -> (n, field)"""
        s = peel(scrut)
        if s.get("k") == "Call" and (callee(s) == CELL + "take" or (callee(s) == CELL + "replace" and _is_none(strip(s["args"][1])))):
            root, chain = field_chain(s["args"][0])
            if chain == [self.f_delta] and var_of(root):
                return var_of(root), self.f_delta
        # &mut *gradient  where gradient = self.gradient.borrow_mut()
        v = var_of(s)
        if v and v in self.binds and self.binds[v][0] == "let":
            init = peel(self.binds[v][1])
            if init.get("k") == "Call" and callee(init) in ("core::cell::RefCell::<T>::borrow_mut", "core::cell::RefCell::<T>::borrow"):
                root, chain = field_chain(init["args"][0])
                if chain == [self.f_grad] and var_of(root):
                    return var_of(root), self.f_grad
        return None, None

    def shape_of_var(self, v, depth):
        if v == self.selfv:
            return ("owner", self.selfv)
        bnd = self.binds.get(v)
        if bnd is None:
            return ("raw", "unbound %s" % v)
        if bnd[0] == "let":
            if bnd[1] is None:
                return ("raw", "uninitialised")
            return self.shape(bnd[1], depth)
        _, scrut, path, owner = bnd
        if path in (["Some.0"], ["*", "Some.0"], ["Some.0", "*"]):
            n, fld = self.slot_owner(scrut)
            if n:
                return ("owner", n)
            if var_of(scrut) == self.seedv:
                return ("owner", self.selfv)    # the property's own precondition: seeds have the result's shape
        return ("raw", "bound by a pattern over %s" % show(scrut)[:60])

    # -- sinks -----------------------------------------------------------------
    def delta_sets(self):
        """[(call node, ctx, owner var, stored value expr)] for every n.delta.set(Some(v))"""
        out = []
        for n, ctx in walk_ctx(self.root):
            if n.get("k") == "Call" and callee(n) in (CELL + "set", CELL + "replace"):
                root, chain = field_chain(n["args"][0])
                if chain == [self.f_delta]:
                    val = strip(n["args"][1])
                    if callee(n) == CELL + "replace" and _is_none(val):
                        continue        # `replace(None)` is `take()`
                    out.append((n, ctx, var_of(root), val))
        return out

    def gradient_stores(self):
        """[(assign node, ctx, owner var, rhs)] for stores through the gradient guard"""
        out = []
        for n, ctx in walk_ctx(self.root):
            if n.get("k") == "Assign":
                lhs = peel(n["l"])
                v = var_of(lhs)
                if v and v in self.binds and self.binds[v][0] == "let":
                    init = peel(self.binds[v][1])
                    if init.get("k") == "Call" and callee(init) == "core::cell::RefCell::<T>::borrow_mut":
                        root, chain = field_chain(init["args"][0])
                        if chain == [self.f_grad]:
                            out.append((n, ctx, var_of(root), strip(n["r"])))
            if n.get("k") == "Call" and callee(n) in ("core::cell::RefCell::<T>::replace", "core::option::Option::<T>::replace", "core::option::Option::<T>::insert"):
                root, chain = field_chain(n["args"][0])
                if chain and chain[-1] == self.f_grad:
                    out.append((n, ctx, var_of(root), strip(n["args"][1])))
        return out


def _some_payload(e):
    e = strip(e)
    if _is_some(e):
        return e["fields"][0]["e"]
    return None


def r11_shape_typestate(facts):
    """R11: every value entering a pending-delta or gradient slot has the owner's dimensions."""
    c = Ctx("R11", facts, "every value entering a pending-delta or gradient slot has the owner's dimensions")
    m = PassModel(facts)
    if not m.ok:
        c.floor("Array::backward model (%s)" % m.why, 0, 1)
        return c
    bw = m.bw
    ds = m.delta_sets()
    gs = m.gradient_stores()
    c.floor("pending-delta stores in backward", len(ds), 2)
    c.floor("gradient stores in backward", len(gs), 2)
    for n, ctx, owner, val in ds:
        payload = _some_payload(val)
        arm = _arm_kind(ctx)
        inst = "sink:delta-merge-%s" % ("later" if arm == "Some" else "first" if arm == "None" else "other")
        if payload is None:
            if _is_none(val):
                c.ok(inst + "#clear", loc(bw, n), "slot cleared", nontrivial=False)
                continue
            c.unk(inst, loc(bw, n), "stored value is not Some(..): %s" % show(val)[:100])
            continue
        sh = m.shape(payload)
        c.check(sh == ("owner", owner), inst, loc(bw, n),
                "value stored into %s.delta is typed Owner(%s)" % (owner.split("#")[0], owner.split("#")[0]),
                "value stored into %s.delta is not reduced to %s's dimensions (%s): a broadcast operand used more than once keeps the broadcast shape"
                % (owner.split("#")[0] if owner else "?", owner.split("#")[0] if owner else "?", sh[1] if sh[0] == "raw" else "owner is %s" % sh[1]))
    for n, ctx, owner, val in gs:
        payload = _some_payload(val)
        arm = _arm_kind(ctx)
        inst = "sink:gradient-%s" % ("accumulate" if arm == "Some" else "first" if arm == "None" else "other")
        if payload is None:
            c.unk(inst, loc(bw, n), "stored value is not Some(..): %s" % show(val)[:100])
            continue
        sh = m.shape(payload)
        c.check(sh == ("owner", owner), inst, loc(bw, n),
                "gradient stored for %s is typed Owner(%s)" % (owner.split("#")[0], owner.split("#")[0]),
                "gradient stored for %s does not provably have its dimensions (%s)" % (owner.split("#")[0] if owner else "?", sh[1]))
    # flatten_to summary cross-check
    ft = None
    for b in facts.fns():
        if b.get("impl_self") == ARRAY and b.get("name") == "flatten_to":
            ft = b
    if ft is None:
        c.floor("flatten_to", 0, 1)
    else:
        ok, why = _flatten_to_summary(facts, ft)
        c.check(ok, "summary:flatten_to", "%s:%d" % (F.rel(ft["file"]), ft["sp"][0]),
                "flatten_to returns self under `self.dimensions == dimensions`, else a sliced_op whose output dimensions are the parameter (flatten_count 0)", why)
    return c


def _arm_kind(ctx):
    for fr in reversed(ctx):
        if fr[0] == "arm":
            pat = fr[1]["arms"][fr[2]]["pat"]
            p = pat
            while p.get("k") in ("Deref", "DerefPattern"):
                p = p["sub"]
            if p.get("k") == "Variant" and p.get("adt") == OPTION:
                return p["variant"]
    return None


def _flatten_to_summary(facts, ft):
    root = strip(facts.root(ft))
    selfv = self_var(facts, ft)
    ps = param_vars(facts, ft)
    dimv = ps[1][0] if len(ps) > 1 else None
    top = _tail(root)
    if not (isinstance(top, dict) and top.get("k") == "If" and top.get("else") is not None):
        return False, "flatten_to is not of the form `if self.dimensions == dimensions { self } else { .. }`"
    cond = strip(top["cond"])
    sides = None
    if cond.get("k") == "Binary" and cond["op"] == "Eq":
        sides = [cond["l"], cond["r"]]
    elif cond.get("k") == "Call" and callee(cond) == "core::cmp::PartialEq::eq":
        sides = cond["args"]
    if not sides:
        return False, "guard is not an equality"
    okc = False
    for a, b in ((sides[0], sides[1]), (sides[1], sides[0])):
        r, ch = field_chain(a)
        if var_of(r) == selfv and ch == ["dimensions"] and var_of(b) == dimv:
            okc = True
    if not okc:
        return False, "guard does not compare self.dimensions with the target parameter"
    th = _tail(top["then"])
    if var_of(th) != selfv:
        return False, "the equal-dimensions branch does not return self"
    el = top["else"]
    stmts, tail = [], strip(el)
    while isinstance(tail, dict) and tail.get("k") == "Block":
        if tail.get("e") is None:
            return False, "else branch has no value"
        tail = strip(tail["e"])
    if not (tail.get("k") == "Call" and resolved(tail) == SLICED_OP):
        return False, "the reducing branch is not a sliced_op call"
    if var_of(tail["args"][4]) != dimv:
        return False, "sliced_op output dimensions are not the target parameter"
    if lit_value(tail["args"][6]) != 0:
        return False, "sliced_op flatten_count is not 0"
    return True, ""


# ------------------------------------------------------------------ R14

def r14_default_seed(facts):
    """R14: the omitted seed is ones of the root's shape."""
    c = Ctx("R14", facts, "omitted seed = ones with the root's dimensions")
    m = PassModel(facts)
    if not m.ok:
        c.floor("Array::backward model (%s)" % m.why, 0, 1)
        return c
    bw = m.bw
    found = 0
    for n, ctx in walk_ctx(m.root):
        if n.get("k") == "Match" and var_of(n["scrutinee"]) == m.seedv:
            for a in n["arms"]:
                p = a["pat"]
                if p.get("k") == "Variant" and p["variant"] == "None":
                    found += 1
                    body = _tail(a["body"])
                    ok, why = _is_ones_of_self(m, body)
                    c.check(ok, "seed:default", loc(bw, body), "None seed -> Array::from((self.dimensions.clone(), vec![1.0; self.values.len()]))", why)
                if p.get("k") == "Variant" and p["variant"] == "Some":
                    body = _tail(a["body"])
                    bvars = [v for v, _, _, _ in F.pat_bindings(p)]
                    c.check(var_of(body) in bvars, "seed:given", loc(bw, body), "a supplied seed is used as given",
                            "a supplied seed is not used as given: %s" % show(body)[:80])
        if n.get("k") == "If" and strip(n["cond"]).get("k") == "Let" and var_of(strip(n["cond"])["e"]) == m.seedv:
            c.unk("seed:shape", loc(bw, n), "seed selected by if-let: form not analysed")
    c.floor("match on the seed parameter with a None arm", found, 1)
    return c


def _is_ones_of_self(m, e):
    e = strip(e)
    if not (e.get("k") == "Call" and (resolved(e) or "").startswith("<corgi::array::Array as core::convert::From<(")):
        return False, "default seed is not built by the (dimensions, values) constructor: %s" % show(e)[:100]
    tup = strip(e["args"][0])
    if tup.get("k") != "Tuple" or len(tup["fields"]) != 2:
        return False, "constructor argument is not a (dimensions, values) tuple"
    if m.owner_of_dims(tup["fields"][0]) != m.selfv:
        return False, "default seed dimensions are not self.dimensions"
    v = strip(tup["fields"][1])
    if v.get("k") == "Call" and callee(v) == "alloc::rc::Rc::<T>::new":
        v = strip(v["args"][0])
    if not (v.get("k") == "Call" and callee(v) == "alloc::vec::from_elem"):
        return False, "default seed values are not vec![x; n]: %s" % show(v)[:80]
    if lit_value(v["args"][0]) != 1.0:
        return False, "default seed is filled with %s, not 1.0" % show(v["args"][0])
    n = peel(v["args"][1])
    ok_n = False
    if n.get("k") == "Call" and callee(n) in ("alloc::vec::Vec::<T, A>::len", "core::slice::<impl [T]>::len"):
        r, ch = field_chain(n["args"][0])
        ok_n = var_of(r) == m.selfv and ch == ["values"]
    elif n.get("k") == "Call" and callee(n) == "core::iter::traits::iterator::Iterator::product":
        for x in walk(n):
            if x.get("k") == "Field" and x["name"] == "dimensions" and var_of(x["e"]) == m.selfv:
                ok_n = True
    if not ok_n:
        return False, "default seed length is not self.values.len() / product of self.dimensions: %s" % show(n)[:80]
    return True, ""


# ------------------------------------------------------------------ R25

def _vars_in(e):
    return {x["v"] for x in walk(e) if x.get("k") in ("VarRef", "UpvarRef")}


ADD = "corgi::array::arithmetic::<impl core::ops::arith::Add<&corgi::array::Array> for &corgi::array::Array>::add"


def r25_accumulate_arms(facts):
    """R25: slots accumulate: Some(old) arm stores old + new, None arm stores new."""
    c = Ctx("R25", facts, "slots accumulate: Some(old) arm stores old + new, None arm stores new")
    m = PassModel(facts)
    if not m.ok:
        c.floor("Array::backward model (%s)" % m.why, 0, 1)
        return c
    bw = m.bw

    def check_group(name, stores, newval_desc):
        by_match = {}
        for n, ctx, owner, val in stores:
            mm = None
            for fr in reversed(ctx):
                if fr[0] == "arm":
                    mm = fr
                    break
            if mm is None:
                c.unk("%s:unmatched" % name, loc(bw, n), "store into the %s slot outside a match on the slot's content" % name)
                continue
            by_match.setdefault(id(mm[1]), []).append((n, ctx, owner, val, mm))
        for _, lst in by_match.items():
            match = lst[0][4][1]
            n_owner, fld = m.slot_owner(match["scrutinee"])
            if n_owner is None:
                c.unk("%s:scrutinee" % name, loc(bw, match), "the match around the %s stores does not inspect the slot's content" % name)
                continue
            arms_seen = set()
            for n, ctx, owner, val, mm in lst:
                arm = match["arms"][mm[2]]
                kind = _arm_kind((mm,))
                arms_seen.add(kind)
                payload = _some_payload(val)
                if owner != n_owner:
                    c.bad("%s:%s-arm" % (name, kind), loc(bw, n), "store goes to %s's slot but the match inspected %s's" % (owner, n_owner))
                    continue
                if payload is None:
                    c.bad("%s:%s-arm" % (name, kind), loc(bw, n), "the %s arm does not store Some(..)" % kind)
                    continue
                p = peel(payload)
                if kind == "Some":
                    oldvars = [v for v, _, _, _ in F.pat_bindings(arm["pat"])]
                    ok = p.get("k") == "Call" and resolved(p) == ADD
                    if ok:
                        a0 = _vars_in(p["args"][0])
                        a1 = _vars_in(p["args"][1])
                        has_old = (a0 & set(oldvars)) or (a1 & set(oldvars))
                        other = a1 if (a0 & set(oldvars)) else a0
                        has_new = bool(other - set(oldvars)) and _only_linear_wrappers(p["args"][1] if (a0 & set(oldvars)) else p["args"][0])
                        ok = bool(has_old) and has_new
                    c.check(ok, "%s:Some-arm" % name, loc(bw, n),
                            "occupied slot: stores old + new (resolved <&Array as Add<&Array>>::add)",
                            "occupied %s slot is not updated to old + new: %s (an earlier contribution would be lost or combined wrongly)" % (name, show(payload)[:120]))
                elif kind == "None":
                    oldvars = []
                    ok = _only_linear_wrappers(payload) and len(_vars_in(payload) - {n_owner}) >= 1
                    c.check(ok, "%s:None-arm" % name, loc(bw, n), "empty slot: stores the new contribution",
                            "empty %s slot does not store the new contribution as is: %s" % (name, show(payload)[:120]))
            for kind in ("Some", "None"):
                if kind not in arms_seen:
                    c.bad("%s:%s-arm" % (name, kind), loc(bw, match), "the %s arm of the match on the %s slot stores nothing" % (kind, name))

    check_group("delta", m.delta_sets(), "")
    check_group("gradient", m.gradient_stores(), "")
    c.floor("slot stores examined", len(m.delta_sets()) + len(m.gradient_stores()), 4)
    return c


def _only_linear_wrappers(e):
    """e is a variable possibly wrapped in flatten_to / clone / borrows"""
    e = peel(e)
    if e.get("k") in ("VarRef", "UpvarRef"):
        return True
    if e.get("k") == "Call" and resolved(e) in ("corgi::array::Array::flatten_to", "<corgi::array::Array as core::clone::Clone>::clone"):
        return _only_linear_wrappers(e["args"][0])
    return False


# ------------------------------------------------------------------ R23

def r23_engine_state_layering(facts):
    """R23: only the engine touches counters, pending deltas and gradient slots."""
    c = Ctx("R23", facts, "only the engine touches counters, pending deltas and gradient slots")
    roles = field_roles(facts)
    for r in ("counter", "delta", "gradient"):
        c.floor("%s field (by type)" % r, len(roles.get(r, [])), 1)
    eng = engine_bodies(facts)
    c.floor("engine bodies", len(eng), 2)
    eng_roots = {b["def"] for b in eng.values()}
    clone_def = None
    debug_def = None
    funnel = None
    for x in facts.fns():
        if x.get("impl_self") == ARRAY and x.get("impl_trait_def") == "core::clone::Clone" and x.get("name") == "clone":
            clone_def = x["def"]
        if x.get("impl_self") == ARRAY and x.get("impl_trait_def") == "core::fmt::Debug":
            debug_def = x["def"]
    # gradient accessors: pub methods of Array whose body is a single RefCell call on the field
    accessors = set()
    gfield = (roles.get("gradient") or [None])[0]
    for b in facts.fns():
        if b.get("impl_self") == ARRAY and b.get("impl_trait_def") is None and b["def"] not in eng_roots:
            _, tail = closure_tail(facts, b)
            t = peel(tail) if tail is not None else None
            if isinstance(t, dict) and t.get("k") == "Call" and (callee(t) or "").startswith("core::cell::RefCell::<T>::") and t["args"]:
                r_, ch = field_chain(t["args"][0])
                if ch == [gfield] and var_of(r_) == self_var(facts, b):
                    stmts, _ = closure_tail(facts, b)
                    if not stmts:
                        accessors.add(b["def"])
    c.floor("gradient accessor methods", len(accessors), 3)
    n = 0
    for b in facts.bodies:
        mir = b.get("mir")
        if not mir:
            continue
        rootdef = b.get("root", b["def"])
        touched = {}
        for p in mir["field_places"]:
            if p["ctx"] == "write:Drop" or p.get("cleanup"):
                # drop elaboration of an owned array that is being consumed: releases the
                # handle's share of the slot, does not read or write the slot's content
                continue
            for e in p["proj"]:
                if isinstance(e, dict) and e.get("adt") == ARRAY:
                    for r in ("counter", "delta", "gradient"):
                        if e["field"] in roles.get(r, []):
                            touched.setdefault(r, p)
        for r, p in touched.items():
            n += 1
            where = "%s:%d" % (F.rel(b["file"]), p["sp"][0])
            inst = "touch:%s#%s" % (b["def"], r)
            if rootdef in eng_roots:
                c.ok(inst, where, "engine body")
            elif rootdef == clone_def:
                c.ok(inst, where, "Clone (shares the slot; provenance checked by R5)", nontrivial=False)
            elif rootdef == debug_def and r == "counter":
                ok = not _writes_cell(facts, b, roles[r])
                c.check(ok, inst, where, "Debug::fmt reads the counter for display only", "Debug::fmt writes the counter")
            elif r == "gradient" and rootdef in accessors:
                c.ok(inst, where, "public gradient accessor (single RefCell call on the slot)")
            else:
                c.bad(inst, where, "%s touches the %s slot of an array: engine state is reserved to backward/propagate_consumers "
                      "(residue left here is only seen by a later overlapping pass)" % (b["def"], r))
    c.floor("engine-state touch sites", n, 6)
    return c


def _writes_cell(facts, b, fields):
    for n in walk(facts.root(b)):
        if n.get("k") == "Call" and (callee(n) or "").startswith(CELL) and callee(n).split("::")[-1] in FLAG_WRITE_METHODS and n["args"]:
            r, ch = field_chain(n["args"][0])
            if ch and ch[-1] in fields:
                return True
    return False


# ------------------------------------------------------------------ R24

def r24_count_protocol(facts):
    """R24: counting / decrementing / recursion are guarded by the shared consumer counter; one invocation site."""
    c = Ctx("R24", facts, "consumer-count protocol guards and the single derivative invocation site")
    eng = engine_bodies(facts)
    c.floor("engine bodies", len(eng), 2)
    counter = role(facts, "counter")
    flags = field_roles(facts).get("flags", [])
    if not counter or len(eng) < 2:
        c.floor("counter field Rc<Cell<usize>>", 1 if counter else 0, 1)
        return c
    # ---- single invocation site, outside loops
    sites = invocation_sites(facts)
    lib_sites = sites
    c.floor("derivative invocation sites", len(lib_sites), 1)
    for b, n, ctx in lib_sites:
        in_engine = b["def"] == eng["backward"]["def"]
        in_loop = any(fr[0] == "loop" for fr in ctx) or b["kind"] == "Closure"
        c.check(in_engine and not in_loop and len(lib_sites) == 1, "invoke:%s" % b["def"], loc(b, n),
                "the derivative closure is invoked at one site, once per call of backward (outside any loop)",
                "derivative closure invoked %s" % ("inside a loop/closure" if in_loop else "outside Array::backward" if not in_engine else "at %d sites" % len(lib_sites)))
    # the invoked closure is self.backward_op
    deriv = role(facts, "derivative")
    for b, n, ctx in lib_sites:
        if b["def"] != eng["backward"]["def"]:
            continue
        recv = peel(n["args"][0])
        v = var_of(recv)
        binds = F.bindings_of(facts.root(b))
        src = None
        if v and v in binds and binds[v][0] == "pat":
            r_, ch = field_chain(binds[v][1])
            if ch == [deriv] and var_of(r_) == self_var(facts, b):
                src = "self.%s" % deriv
        c.check(src is not None, "invoke:callee", loc(b, n), "the invoked closure is %s" % src,
                "the invoked closure is not the node's own recorded derivative")

    # ---- every write of the counter in the crate
    writes = []
    for b in facts.bodies:
        for n, ctx in walk_ctx(facts.root(b)):
            if n.get("k") == "Call" and (callee(n) or "").startswith(CELL) and callee(n).split("::")[-1] in FLAG_WRITE_METHODS and n["args"]:
                r_, ch = field_chain(n["args"][0])
                if ch and ch[-1] == counter:
                    writes.append((b, n, ctx, var_of(r_)))
    c.floor("writes of the consumer counter", len(writes), 2)
    for b, n, ctx, owner in writes:
        binds = F.bindings_of(facts.root(b))
        inst_base = "count-write:%s" % b["def"]
        m = callee(n).split("::")[-1]
        if m != "set":
            c.bad(inst_base + "#" + m, loc(b, n), "consumer counter written with Cell::%s" % m)
            continue
        val = strip(n["args"][1])

        def reading(e):
            """e reads owner's counter: ('prev'|'new') relative to this write, or None"""
            e0 = strip(e)
            v = var_of(e0) if e0.get("k") in ("VarRef", "UpvarRef") else None
            src, at = None, None
            if v and v in binds and binds[v][0] == "let" and binds[v][1] is not None:
                src, at = peel(binds[v][1]), binds[v][1].get("sp")
            elif e0.get("k") == "Call":
                src, at = peel(e0), e0.get("sp")
            if src is None or src.get("k") != "Call" or callee(src) != CELL + "get":
                return None
            r2, ch2 = field_chain(src["args"][0])
            if not (ch2 and ch2[-1] == counter and var_of(r2) == owner):
                return None
            if e0.get("k") == "Call" and any(x is e0 for x in walk(n)):
                return "prev"       # an argument of the write itself is evaluated before it
            return "prev" if tuple(at[:2]) <= tuple(n["sp"][:2]) else "new"

        form = None
        if val.get("k") == "Binary" and val["op"] in ("Add", "Sub") and lit_value(val["r"]) == 1 and reading(val["l"]) == "prev":
            form = "inc" if val["op"] == "Add" else "dec"
        if form is None:
            c.bad(inst_base + "#form", loc(b, n), "counter write is not `set(get() +/- 1)` on the same node: %s" % show(val)[:100])
            continue

        def guarded_by_count(ctx2, want_prev, want_new):
            for fr in ctx2:
                if fr[0] == "if" and fr[2] == "then":
                    cond = strip(fr[1]["cond"])
                    if cond.get("k") == "Binary" and cond["op"] == "Eq":
                        for x, y in ((cond["l"], cond["r"]), (cond["r"], cond["l"])):
                            k_ = lit_value(y)
                            rd = reading(x)
                            if rd == "prev" and k_ == want_prev:
                                return True
                            if rd == "new" and k_ == want_new:
                                return True
            return False

        if form == "inc":
            ok_body = b["def"] == eng["propagate_consumers"]["def"]
            guard = False
            for fr in ctx:
                if fr[0] == "if" and fr[2] == "then":
                    cond = peel(fr[1]["cond"])
                    if cond.get("k") == "Call" and callee(cond) == CELL + "get":
                        r3, ch3 = field_chain(cond["args"][0])
                        if ch3 == ["is_tracked"] and var_of(r3) == owner:
                            guard = True
            c.check(ok_body and guard, "count:increment", loc(b, n),
                    "a child's counter is incremented only in propagate_consumers and only if that child is tracked",
                    "counter increment %s" % ("is not guarded by exactly the child's is_tracked flag (children that are never delivered to keep a residue; "
                                              "children that are delivered to but not counted underflow)" if ok_body else "outside propagate_consumers"))
            rec_ok = None
            for n2, ctx2 in walk_ctx(facts.root(b)):
                if n2.get("k") == "Call" and resolved(n2) == eng["propagate_consumers"]["def"] and var_of(n2["args"][0]) == owner:
                    rec_ok = guarded_by_count(ctx2, 0, 1)
                    c.check(rec_ok, "count:descend-once", loc(b, n2),
                            "descent into a child only when its previous count was 0 (no double counting below shared nodes)",
                            "recursive propagate_consumers is not guarded by `previous count == 0`: nodes below a shared child are counted once per path")
            if rec_ok is None:
                c.bad("count:descend-once", loc(b, n), "no recursive descent into tracked children found")
        else:
            ok_body = b["def"] == eng["backward"]["def"]
            guard = False
            for fr in ctx:
                if fr[0] == "if" and fr[2] == "then":
                    cond = strip(fr[1]["cond"])
                    if cond.get("k") == "Let" and cond["pat"].get("k") == "Variant" and cond["pat"]["variant"] == "Some":
                        guard = True
                if fr[0] == "arm":
                    pat = fr[1]["arms"][fr[2]]["pat"]
                    if pat.get("k") == "Variant" and pat.get("adt") == OPTION and pat["variant"] == "Some":
                        guard = True
            c.check(ok_body and guard, "count:decrement", loc(b, n),
                    "a child's counter is decremented only in backward and only when a delta was delivered to it",
                    "counter decrement %s" % ("is not conditional on a delivered delta" if ok_body else "outside backward"))
            rec = None
            for n2, ctx2 in walk_ctx(facts.root(b)):
                if n2.get("k") == "Call" and resolved(n2) == eng["backward"]["def"] and var_of(n2["args"][0]) == owner:
                    rec = guarded_by_count(ctx2, 1, 0)
                    c.check(rec, "count:recurse-at-zero", loc(b, n2),
                            "recursion into a child only when the delivered delta was its last outstanding one (previous count == 1 / new count == 0)",
                            "recursive backward on a child is not guarded by its consumer count reaching zero: its derivative runs once per consumer (exponential on self-products) with a partial adjoint")
                    seed = strip(n2["args"][1])
                    c.check(_is_none(seed), "count:recurse-seed", loc(b, n2), "the child continues from its pending delta (seed None)",
                            "recursive call passes an explicit seed instead of using the child's pending delta")
            if rec is None:
                c.bad("count:recurse-at-zero", loc(b, n), "no recursive backward into children found")
    # ---- counting happens exactly when a pass starts at a node without a pending delta
    bw = eng["backward"]
    m = PassModel(facts)
    n_recount = 0
    for n2, ctx2 in walk_ctx(facts.root(bw)):
        if n2.get("k") == "Call" and resolved(n2) == eng["propagate_consumers"]["def"]:
            n_recount += 1
            on_self = var_of(n2["args"][0]) == m.selfv
            in_absent_branch = False
            for fr in ctx2:
                if fr[0] == "if" and fr[2] == "else":
                    cond = strip(fr[1]["cond"])
                    if cond.get("k") == "Let" and cond["pat"].get("k") == "Variant" and cond["pat"]["variant"] == "Some":
                        o_, f_ = m.slot_owner(cond["e"])
                        if o_ == m.selfv and f_ == m.f_delta:
                            in_absent_branch = True
                if fr[0] == "arm":
                    pat = fr[1]["arms"][fr[2]]["pat"]
                    if pat.get("k") == "Variant" and pat.get("adt") == OPTION and pat["variant"] == "None":
                        o_, f_ = m.slot_owner(fr[1]["scrutinee"])
                        if o_ == m.selfv and f_ == m.f_delta:
                            in_absent_branch = True
            c.check(on_self and in_absent_branch, "count:recount-only-at-root", loc(bw, n2),
                    "consumers are (re)counted only when the pass starts at a node that has no pending delta (i.e. at the root of a pass)",
                    "propagate_consumers is called from backward outside the 'no pending delta' branch: nodes reached by the recursion are "
                    "counted again in the middle of a pass")
    c.check(n_recount >= 1, "count:recount-present", "%s:%d" % (F.rel(bw["file"]), bw["sp"][0]),
            "backward counts consumers when it starts a pass", "backward never counts consumers: decrements would underflow")
    # ---- slot i of the derivative's result is delivered to child i
    n_child = 0
    for n2, ctx2 in walk_ctx(facts.root(bw)):
        if n2.get("k") == "Call" and callee(n2) in ("core::ops::index::Index::index",) and len(n2["args"]) == 2:
            r_, ch = field_chain(n2["args"][0])
            if ch == [m.f_edges] and var_of(r_) == m.selfv:
                n_child += 1
                iv = var_of(n2["args"][1]) if peel(n2["args"][1]).get("k") in ("VarRef", "UpvarRef") else None
                ok = False
                why = "children are indexed with an expression that is not the position of the slot"
                if iv:
                    bnd = m.binds.get(iv)
                    if bnd and bnd[0] == "pat" and [p for p in bnd[2] if p != "*"][-1:] == ["0"]:
                        # bound as the index component of `.enumerate()` over the closure result
                        src = bnd[1]
                        has_enum = False
                        vs = set()
                        todo = [src]
                        seen = set()
                        while todo:
                            e_ = todo.pop()
                            for x in walk(e_):
                                if x.get("k") == "Call" and callee(x) == "core::iter::traits::iterator::Iterator::enumerate":
                                    has_enum = True
                                if x.get("k") in ("VarRef", "UpvarRef") and x["v"] not in seen:
                                    seen.add(x["v"])
                                    b2 = m.binds.get(x["v"])
                                    if b2 and b2[1] is not None:
                                        todo.append(b2[1])
                        sites = [s for s in invocation_sites(facts) if s[0]["def"] == bw["def"]]
                        from_inv = bool(sites) and any(any(y is sites[0][1] for y in walk(m.binds[v][1])) for v in seen if v in m.binds and m.binds[v][1] is not None)
                        if has_enum and from_inv:
                            ok = True
                        else:
                            why = "the child index is not the enumerate() position over the derivative's result vector"
                c.check(ok, "engine:slot-child-alignment", loc(bw, n2),
                        "slot i of the derivative's result is delivered to self.children[i] (index = enumerate position)", why)
    if n_child == 0:
        # accepted alternative: children zipped with the result vector
        zipped = False
        for n2 in walk(facts.root(bw)):
            if n2.get("k") == "Call" and callee(n2) == "core::iter::traits::iterator::Iterator::zip":
                r0, c0 = field_chain(n2["args"][0])
                if c0 == [m.f_edges] or any(x.get("k") == "Field" and x.get("name") == m.f_edges for x in walk(n2["args"][0])):
                    zipped = True
        c.check(zipped, "engine:slot-child-alignment", "%s:%d" % (F.rel(bw["file"]), bw["sp"][0]),
                "children are zipped with the derivative's result vector", "cannot find how result slots are matched with children")
    return c


def _cmp_var_const(cond, v, op, const):
    cond = strip(cond)
    if cond.get("k") == "Binary" and cond["op"] == op:
        if var_of(cond["l"]) == v and lit_value(cond["r"]) == const:
            return True
        if var_of(cond["r"]) == v and lit_value(cond["l"]) == const:
            return True
    return False
