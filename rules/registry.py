"""Which rules decide which property, and the texts that go into evidence."""

from . import repr_rules as RR

try:
    from . import engine_rules as ER
except ImportError:  # pragma: no cover
    ER = None
try:
    from . import op_rules as OR
except ImportError:  # pragma: no cover
    OR = None
try:
    from . import pass_rules as PR
except ImportError:  # pragma: no cover
    PR = None
try:
    from . import extra_rules as XR
except ImportError:  # pragma: no cover
    XR = None
try:
    from . import config_rules as CR
except ImportError:  # pragma: no cover
    CR = None
try:
    from . import shape_rules as SR
except ImportError:  # pragma: no cover
    SR = None
try:
    from . import geom_rules as GR
except ImportError:  # pragma: no cover
    GR = None
try:
    from . import deriv_rules as DR
except ImportError:  # pragma: no cover
    DR = None
try:
    from . import spec_rules as SP
except ImportError:  # pragma: no cover
    SP = None
try:
    from . import index_rules as IR
except ImportError:  # pragma: no cover
    IR = None
from . import detach_rules as DT
try:
    from . import contract_rules as KR
except ImportError:  # pragma: no cover
    KR = None
try:
    from . import dep_rules as DPR
except ImportError:  # pragma: no cover
    DPR = None
try:
    from . import bcast_rules as BR
except ImportError:  # pragma: no cover
    BR = None


def _get(mod, name):
    return getattr(mod, name, None) if mod else None


RULES = {
    "R1": RR.r1_freeze,
    "R2": RR.r2_no_unsafe,
    "R3": RR.r3_no_in_place_write,
    "R4": RR.r4_api_surface,
    "R5": RR.r5_clone_provenance,
    "R6": RR.r6_child_by_clone,
    "R7": RR.r7_no_drop,
    "R16": RR.r16_ctor_funnel,
    "R16l": RR.r16_literals_only,
    "R14t": _get(PR, "r14_seed_untracked"),
    "R54": _get(DT, "r54_no_flat_pairing_in_forward"),
    "R55e": _get(KR, "r55_ewise"),
    "R55p": _get(KR, "r55_pointwise"),
    "R55m": _get(KR, "r55_matmul"),
    "R55c": _get(KR, "r55_conv"),
    "R55f": _get(KR, "r55_flatten"),
    "R56": _get(KR, "r56_attach_contract"),
    "R57e": _get(DPR, "r57_ewise"),
    "R57m": _get(DPR, "r57_matmul"),
    "R57c": _get(DPR, "r57_conv"),
    "R57r": _get(DPR, "r57_reduce"),
    "R57f": _get(DPR, "r57_flatten"),
    "R57i": _get(DPR, "r57_index"),
    "R55k": _get(KR, "r55_ctors"),
    "R55l": _get(KR, "r55_layers"),
    "R17": RR.r17_eq_fields,
    "R20": RR.r20_ownership_edges,
    "R8": _get(OR, "r8_attach_iff_tracked"),
    "R9": _get(ER, "r9_slot_arity_and_gate"),
    "R10": _get(PR, "r10_flag_writers_and_pairing"),
    "R11": _get(PR, "r11_shape_typestate"),
    "R12": _get(OR, "r12_param_dependence"),
    "R13": _get(OR, "r13_linearity"),
    "R14": _get(PR, "r14_default_seed"),
    "R15": _get(OR, "r15_accumulate_on_scatter"),
    "R21": _get(OR, "r21_fresh_parameter"),
    "R23": _get(PR, "r23_engine_state_layering"),
    "R24": _get(PR, "r24_count_protocol"),
    "R25": _get(PR, "r25_accumulate_arms"),
    "R22": _get(XR, "r22_update_alignment"),
    "R26": _get(XR, "r26_engine_control"),
    "R27": _get(XR, "r27_slot_identity"),
    "R28": _get(XR, "r28_stateless_gradient_descent"),
    "R42": _get(XR, "r42_writeback_gated"),
    "R43": _get(XR, "r43_gradients_taken_on_every_path"),
    "R44": _get(XR, "r44_stateless_derivative"),
    "R46": _get(XR, "r46_update_formula"),
    "R48": _get(XR, "r48_update_does_not_need_unique_buffers"),
    "R50": _get(XR, "r50_only_update_reseats_handles"),
    "R52": _get(XR, "r52_model_update_delegates"),
    "R53": _get(XR, "r53_replace_gradient_clears"),
    "R29": _get(SR, "r29_matmul_adjoint_shapes"),
    "R31": _get(SR, "r31_reduce_last"),
    "R30": _get(GR, "r30_conv_geometry"),
    "R32": _get(SR, "r32_sliced_shape_contract"),
    "R33": _get(DR, "r33_derivative_formula"),
    "R34": _get(SP, "r34_documented_formulas"),
    "R35": _get(SP, "r35_pointwise_definitions"),
    "R36": _get(IR, "r36_matmul_index_maps"),
    "R37": _get(IR, "r37_conv_index_maps"),
    "R38": _get(IR, "r38_matmul_shapes"),
    "R39": _get(IR, "r39_roll_adjoint_of_unroll"),
    "R40": _get(BR, "r40_broadcast"),
    "R41": _get(IR, "r41_multi_index"),
    "R49": _get(IR, "r49_addend_coverage"),
    "R45": _get(DT, "r45_no_detached_dependence"),
    "R40c": _get(BR, "r40_alignment_only"),
    "R47": _get(DT, "r47_no_operand_alias"),
    "R51": _get(DT, "r51_no_flat_broadcast_in_derivatives"),
}

# property -> rules (DESIGN.md section 4)
PROPERTY_RULES = {
    "C01": ["R9", "R8", "R5", "R27", "R6", "R24", "R11", "R25", "R23", "R26", "R45", "R10", "R33", "R12", "R13", "R15", "R29", "R31", "R32", "R39", "R51"],
    "C02": ["R12", "R13", "R15", "R9", "R33", "R29", "R31", "R30", "R32", "R39", "R11", "R45", "R51", "R57e", "R57m", "R57c", "R57r"],
    "C03": ["R11", "R21", "R31", "R55f", "R57f"],
    "C04": ["R40", "R41", "R47", "R54", "R55e", "R57e"],
    "C05": ["R36", "R38", "R40c", "R41", "R49", "R55m", "R57m"],
    "C06": ["R37", "R30", "R55c", "R57c"],
    "C07": ["R35", "R16", "R32", "R55p", "R57r"],
    "C08": ["R1", "R2", "R3", "R4", "R7", "R50"],
    "C09": ["R8", "R9", "R10", "R5", "R24", "R47", "R14t", "R56", "R23"],
    "C10": ["R23", "R20", "R25", "R9", "R11", "R10", "R26", "R24", "R44", "R53"],
    "C11": ["R24", "R5", "R27", "R6", "R26", "R9", "R25"],
    "C12": ["R5", "R27", "R3", "R6", "R7", "R17", "R23", "R47"],
    "C13": ["R21", "R22", "R28", "R42", "R43", "R46", "R48", "R53", "R23"],
    "C14": ["R21", "R28", "R22", "R20", "R24", "R23", "R42", "R43", "R9", "R46", "R52"],
    "C15": ["R34", "R30", "R55l"],
    "C16": ["R16", "R3", "R17", "R41", "R55k", "R57i"],
    "C17": ["R13", "R14", "R26", "R44"],
    "C18": ["R20", "R21", "R7", "R8", "R16l", "R9", "R14t"],
    "C19": ["R19"],
}

LEVEL = {p: "other" for p in PROPERTY_RULES}
LEVEL["C08"] = "proof"

TRUSTED_BASE = [
    "rustc nightly front end: the THIR/MIR read by the driver are the program that is compiled",
    "rustc type checking, borrow checking and privacy (safe Rust gives no write access through & to Freeze data)",
    "documented contracts of std Rc / Cell / RefCell / Vec",
    "the driver (/verif/driver) and rule code (/verif/rules) themselves",
    "panics/unwinding are outside all path rules",
    "BLAS feature configurations cannot be built offline and are not analysed",
]

EXPLANATION = {
    "C01": "Clause-level static verdict. Decides the composition obligations of the autograd engine for all programs: one gated "
           "adjoint slot per recorded operand (R9), every operation (and the attach primitives op / sliced_op) attaches when an operand is tracked and records all operands in order (R8), operands recorded as slot-sharing clones (R5,R6), count/decrement/recursion "
           "guards (R24), contributions merged in the owner's shape (R11) by addition (R25), nobody else touches engine state (R23), "
           "and no engine branch reads adjoint values (R26). "
           "Does NOT decide the numeric value of any gradient.",
    "C02": "Clause-level static verdict over every built-in backward closure: every value-relevant scalar parameter reaches the "
           "derivative (R12), each slot is linear-homogeneous in the incoming adjoint (R13), adjoint scatters accumulate (R15), the matrix product's deltas have their operand's shape under all four transposition assignments (R29, a shape type system), the routine used as the derivative of im2col uses exactly im2col's index pairs, transposed (R39: div / mod decoding simplified symbolically under the loop ranges), a single-operand sliced_op call slices its operand along the operand's own shape — the adjoint has the constructor's output dimensions with the flattened dimensions collapsed (R32, decides 'reductions over several dimensions' as far as forward / backward shape agreement goes), one "
           "slot per operand (R9). Does NOT decide that the Jacobian is the right one.",
    "C03": "Clause-level static verdict: shape typestate (R11) proves that every value entering a pending-delta or gradient slot "
           "has been reduced to the owner's dimensions, for the first and every later contribution; R21 adds that the optimizer "
           "builds parameters from the parameter's own dimensions; R31 that no derivative closure reduces the adjoint itself (the summing of "
           "broadcast contributions happens once, in the engine, on the finished contribution). Does NOT decide the summed values.",
    "C04": "Clause-level static verdict: element_wise_dimensions pairs the dimension vectors from the last dimension, refuses exactly the pairs "
           "that are neither equal nor 1 and takes the pairwise maximum (condition and update decided on the finite grid of orderings); add, "
           "subtract, multiply, divide and axpy apply exactly their scalar operation per element (forward maps in an exact algebra); and every "
           "place in sliced_op that matches an operand's dimensions against the target uses one alignment (R40).  The last clause FAILS on the "
           "pinned tree and is recorded as an open known finding (the broadcast check aligns from the last dimension, the slice walk from the "
           "first). Does NOT decide that a consistently aligned walk visits the right slices (rewinding over interior unit dimensions).",
    "C05": "Clause-level static verdict for operands of rank >= 2 inside one slice: for each of the four transposition assignments the kernel's "
           "index polynomials are the row-major positions of op(A)[r,k], op(B)[k,j] and C[r,j] and the dot product is ADDED onto the (pre-set) "
           "result slice (R36); rows, cols and inner length are read from the right dimensions, the kernel receives them and the operand / flag "
           "pairs in the right order, and the compatibility assertion compares the inner dimensions of op(A) and op(B) (R38). Does NOT decide "
           "the walk over leading dimensions (sliced_op), the rank-1 special forms, the broadcast of the additive term, rounding.",
    "C06": "Clause-level static verdict for one image: im2col reads image[k, r*sr+m, c*sc+n] into row r*cols+c, column (k*frows+m)*fcols+n of the "
           "unrolled matrix and the output transposition maps [windows, filters] to [filters, windows] (index polynomials in an exact algebra, "
           "R37); the index arithmetic is axis-consistent, the window count is (extent - filter extent) / stride + 1 and is the same formula in "
           "all routines (R30). Does NOT decide batching (the walk over leading dimensions), the composition with matmul / reshape, rounding.",
    "C07": "Clause-level static verdict: the forward maps of negation, scaling, powf, ln, exp, reciprocal, relu and sigmoid - read from "
           "the source and compared in an exact rational-function algebra - are exactly their scalar definitions and the results are built "
           "with the operand's own dimensions; softmax is exp divided by sum(exp, 1); sum_all is the sum of the values; reshape passes the "
           "flat values through unchanged and goes through the checked constructor, which refuses a different element count (R35, R16). "
           "Does NOT decide sum(k) (its index walk over runtime shapes) nor numerical accuracy.",
    "C08": "Whole-property static proof: shown storage (the fields read by dimensions()/values()/Index/eq) is private, Freeze all the "
           "way down (R1), there is no user unsafe (R2), no body stores to or mutably borrows it (R3), the public API returns no "
           "mutable path into it and Array has no &mut self method (R4), and no type has a destructor (R7). Hence no safe program can "
           "change what an existing handle shows.",
    "C09": "Clause-level static verdict: result attached iff some recorded operand is tracked, by exhaustive Boolean evaluation of "
           "each constructor's guard (R8); slot i gated on operand i (R9); flag writers and the stop/restore pairing in backward "
           "(R10); flags are per-handle values copied by Clone (R5); gradient slots are written by the engine and the documented accessors only, so "
           "no flag accessor or constructor empties or fills one (R23). Does NOT decide run-time flag values during a pass.",
    "C10": "Clause-level static verdict: only the engine touches counters/deltas/gradient slots (R23), a pending delta cannot be read "
           "without being emptied (R20d), the gradient slot adds (R25), every counted operand is delivered to (R9), in the owner's "
           "shape (R11); tracking flags are restored after the derivative call (R10), counters move only under the protocol's guards (R24) and "
           "no engine branch reads adjoint values (R26). "
           "Does NOT prove the counting invariant over all histories.",
    "C11": "Clause-level static verdict: the derivative closure is invoked at exactly one call site outside any loop; counting, "
           "decrementing and recursion are guarded by the shared consumer counter (R24); clones share that counter (R5,R6); no engine "
           "branch reads adjoint values (R26). "
           "Architecture-bound to the recursive counter engine.",
    "C12": "Clause-level static verdict (the anchored clause): Clone shares or copies every field correctly and every field has a "
           "decided sharing class (R5); no body re-seats a shared slot of a handle (R27) or writes a handle's own dimensions/values in place (R3: "
           "clones would stop showing the same array); graphs hold clones, never reconstructions (R6); "
           "drops are silent (R7); equality ignores "
           "per-handle state (R17); only the engine and the gradient accessors write the per-node slots every clone shares, so a "
           "per-handle method (tracked / untracked / ...) cannot change what the other handles see (R23).",
    "C13": "(R42: parameters are overwritten only under a per-parameter selection - the gradient's presence or a mask element; R43: the gradient-taking code is reached on every path through update.) Clause-level static verdict: the value installed over a parameter is a fresh, graph-free, gradient-free, same-shape, "
           "tracked array built by the public constructor (R21); the traversal that fills the frozen-mask / flat buffers and the one that "
           "consumes them visit the same parameters in a consistent order and select the same subset (R22); the optimizer has no "
           "interior-mutable state, so an update cannot depend on earlier ones (R28). Does NOT decide the arithmetic old - lr*g.",
    "C14": "Clause-level static verdict for the second sentence of the property (no gradient, graph or other state of a previous "
           "iteration leaks into the next one): update installs fresh, graph-free, gradient-free, tracked parameters built by the "
           "public constructor (R21) in the right positions (R22); the gradient-descent optimizer has no interior-mutable state (R28); "
           "the model retains a single output slot that is replaced as a whole, no type keeps a collection of arrays, no static or "
           "thread-local holds arrays, backward closures capture no arrays (R20); the engine's consumer counters are incremented "
           "only for tracked children and paid back once per contribution (R24) and nobody else writes engine state (R23), so no "
           "counter residue survives a pass on a parameter that was frozen meanwhile. Does NOT decide that each step follows the exact "
           "gradient of the current loss (numeric).",
    "C15": "Clause-level static verdict: read from the source and compared in an exact algebra in which matmul, conv, sum_all and the "
           "activation / cost closures are uninterpreted function symbols: mse = (target - output)^2 / element count, cross-entropy = "
           "-target * ln(output) / leading dimension, Dense::forward = activation?(matmul((x, false), (weights, true), Some(biases))), "
           "Conv::forward = activation?(conv(x, filters, stride) + biases), Model::forward applies every layer once, first to last, each to "
           "the previous result, and Model::backward returns sum_all(cost(stored output, target)) (R34). Decides that the right function is "
           "applied to the right arguments in the right order; on a finite grid of layer sizes, evaluated in the shape slice, Dense::forward returns "
           "[batch, outputs] and refuses every other batch width, Conv::forward returns [filters, window rows, window cols] for every fitting "
           "geometry (R55l). Does NOT decide what matmul / conv compute (C05 / C06).",
    "C16": "(R41: the multi-index -> flat index fold is the row-major position for every rank 1..4 and every pattern of unit dimensions, evaluated on symbolic lists in an exact algebra.) Clause-level static verdict: all refusal clauses via the constructor funnel and its dominating assertions plus no later "
           "write (R16,R3), and equality reads exactly dimensions and values as a conjunction (R17). Does NOT decide index arithmetic.",
    "C17": "(R44: a derivative closure stores nothing computed from its adjoint into captured interior-mutable state.) Clause-level static verdict: linearity type system over every built-in backward closure and the engine's delta path "
           "(R13); default seed is ones of the root's shape (R14); no engine branch reads adjoint values (R26). Over the reals; user closures out of scope.",
    "C18": "Clause-level static verdict: ownership-edge inventory (R20), fresh graph-free parameters (R21), no destructors (R7), and a result of untracked operands records nothing (R8): the deltas built inside derivative closures - whose operands are untracked while they run - and hence the stored gradients are graph-free, so gradient slots cannot close a cycle.",
    "C19": "Clause-level static verdict: the f32 build is the f64 build with the float type substituted (body-by-body MIR "
           "comparison with the width erased), no assertion depends on a float, no width-characteristic constant (EPSILON, MAX, ..) enters a computation, and every other rule gives the same obligations "
           "under both configurations (R19). Does NOT decide numerical agreement.",
}
