"""Thorough tier extras: compile-fail witnesses, planted positives (fixtures) and the
mutant / benign corpus.  A static verdict is already universal over inputs; what this tier
adds is a measurement, on every run, that the checker still *can* fire (and stays silent on
behaviour-preserving edits)."""

import glob
import json
import os
import re
import shutil
import subprocess
import sys
import tempfile
import time
from concurrent.futures import ProcessPoolExecutor

from . import facts as F
from . import registry as REG
from .core import Ob, VIOLATED, DISCHARGED

VERIF = F.VERIF
WITNESS_PROPS = {
    "C08": ["c08_"],
    "C09": ["c09_"],
    "C12": ["c12_", "c09_"],
    "C10": ["c10_"],
    "C11": ["c10_"],
    "C18": ["c12_"],
}
FIXTURE_EXPECT = {
    "C08": ["R1@field:values", "R2@body:corgi::array::Array::poke", "R3@body:corgi::array::Array::squeeze#dimensions",
            "R4@fn:corgi::array::Array::dimensions_mut", "R4@field-vis:dimensions", "R7@adt:corgi::array::Array"],
    "C12": ["R7@adt:corgi::array::Array", "R17@eq:eq#fields"],
    "C16": ["R16@literal:corgi::array::Array::raw", "R17@eq:eq#fields", "R3@body:corgi::array::Array::squeeze#dimensions"],
    "C18": ["R7@adt:corgi::array::Array"],
}



def run_witnesses(prop):
    """-> (obs, info)"""
    prefixes = WITNESS_PROPS.get(prop)
    if not prefixes:
        return [], {}
    wdir = os.path.join(VERIF, "witness")
    lock = os.path.join(F.REPO, "Cargo.lock")
    if os.path.exists(lock):
        shutil.copy(lock, os.path.join(wdir, "Cargo.lock"))
    env = dict(os.environ, CARGO_TARGET_DIR=os.path.join(F.CACHE, "tgt-witness"), CARGO_NET_OFFLINE="true")
    t0 = time.time()
    r = subprocess.run(["cargo", "+nightly", "test", "--doc", "--offline"], cwd=wdir, env=env, capture_output=True, text=True)
    out = r.stdout + r.stderr
    obs = []
    results = {}
    for m in re.finditer(r"test src/lib\.rs - (\w+) \(line \d+\)(?: - compile fail)? \.\.\. (\w+)", out):
        results[m.group(1)] = m.group(2)
    info = {"witness_cmd": "cargo +nightly test --doc --offline (in /verif/witness, against /repo)", "witness_results": {}, "witness_wall_s": round(time.time() - t0, 1)}
    if not results:
        # the witness crate itself could not be built against /repo (API changed): unusable, not a verdict
        info["witness_unusable"] = out[-600:]
        return obs, info
    for name, res in sorted(results.items()):
        if not any(name.startswith("w_" + p) or name.startswith("twin_" + p) for p in prefixes):
            continue
        info["witness_results"][name] = res
        if name.startswith("w_"):
            twin = results.get("twin_" + name[2:])
            if res == "ok":
                if twin == "ok":
                    obs.append(Ob("W", "witness:" + name, "witness/src/lib.rs", DISCHARGED,
                                  "the offending program is rejected by rustc with the expected error code; its twin compiles"))
                else:
                    obs.append(Ob("W", "witness:" + name, "witness/src/lib.rs", DISCHARGED,
                                  "rejected by rustc (twin does not compile: witness weak)", nontrivial=False))
            else:
                obs.append(Ob("W", "witness:" + name, "witness/src/lib.rs", VIOLATED,
                              "a program that must not type-check now compiles (or fails with a different error): see /verif/witness/src/lib.rs `%s`" % name))
    return obs, info


def run_fixtures(prop):
    exp = FIXTURE_EXPECT.get(prop)
    if not exp:
        return [], {}
    obs = []
    try:
        facts = F.extract("default", repo=os.path.join(VERIF, "fixtures"), target_tag="fixtures", crate="corgi")
    except F.ExtractionError as e:
        return [Ob("FX", "fixtures:extract", "fixtures/", VIOLATED, "the planted-positive crate could not be analysed: %s" % str(e)[-400:])], {}
    fired = set()
    for r in REG.PROPERTY_RULES[prop]:
        fn = REG.RULES.get(r)
        if fn is None:
            continue
        try:
            for o in fn(facts).obs:
                if o.bad() and o.status != "unclassified":
                    fired.add(o.key)
        except Exception:
            pass
    for k in exp:
        if k in fired:
            obs.append(Ob("FX", "fixture:" + k, "fixtures/src/array/mod.rs", DISCHARGED, "planted positive reported by the rule (the rule can fire)"))
        else:
            obs.append(Ob("FX", "fixture:" + k, "fixtures/src/array/mod.rs", VIOLATED,
                          "the rule did not report its planted positive in /verif/fixtures: the rule is blind"))
    return obs, {"fixture_keys_expected": len(exp), "fixture_keys_fired": len([k for k in exp if k in fired])}


def _parse_header(path):
    props, expect = [], []
    with open(path) as f:
        for line in f:
            if not line.startswith("#"):
                break
            if line.startswith("# properties:"):
                props = [x.strip() for x in line.split(":", 1)[1].split(",") if x.strip()]
            if line.startswith("# expect:"):
                expect = [x.strip() for x in line.split(":", 1)[1].split(" | ") if x.strip()]
    return props, expect


def _eval_patch(args):
    path, prop, slot, kind = args
    sys.path.insert(0, os.path.join(VERIF, "selftest"))
    import mutant as M
    name = os.path.basename(path)[:-5]
    if kind == "seeded":
        name = os.path.basename(os.path.dirname(path))
    res = {"name": name, "kind": kind}
    d, dst = M.scratch_copy()
    try:
        try:
            M.apply_patch(dst, path)
        except RuntimeError:
            res["status"] = "stale"       # /repo has moved on: the patch no longer applies
            return res
        orig = F.extract

        def ex(config="default", repo=None, **kw):
            kw.pop("target_tag", None)
            return orig(config, repo=repo, target_tag="st%d-%s" % (slot, config), **kw)
        F.extract = ex
        try:
            obs = M.evaluate(dst, [prop])[prop]
        except F.ExtractionError:
            res["status"] = "no-compile"
            return res
        finally:
            F.extract = orig
        res["fired"] = sorted({o.key for o in obs if o.bad() and o.status != "unclassified"})
        res["status"] = "ok"
        return res
    finally:
        shutil.rmtree(d, ignore_errors=True)


def run_corpus(prop, jobs=8):
    tasks = []
    i = 0
    for path in sorted(glob.glob(os.path.join(VERIF, "selftest", "mutants", "*.diff"))):
        props, expect = _parse_header(path)
        if prop in props:
            tasks.append((path, prop, i % jobs, "mutant"))
            i += 1
    for path in sorted(glob.glob(os.path.join(VERIF, "selftest", "benign", "*.diff")) + glob.glob(os.path.join(VERIF, "selftest", "benign_ext", "*.diff"))):
        tasks.append((path, prop, i % jobs, "benign"))
        i += 1
    # seeded changes written by independent sub-agents: replay those this property is known to catch
    seeded_expect = {}
    for mp in sorted(glob.glob(os.path.join(VERIF, "seeded", "*", "meta.json"))):
        try:
            meta = json.load(open(mp))
        except Exception:
            continue
        if prop in (meta.get("checks_that_fire") or {}):
            path = os.path.join(os.path.dirname(mp), "patch.diff")
            if os.path.exists(path):
                tasks.append((path, prop, i % jobs, "seeded"))
                seeded_expect[path] = meta.get("id")
                i += 1
    chains = {}
    for t in tasks:
        chains.setdefault(t[2], []).append(t)
    results = []
    with ProcessPoolExecutor(max_workers=jobs) as ex:
        for f in [ex.submit(_run_chain, ch) for ch in chains.values()]:
            results.extend(f.result())
    summary = {"mutants_run": 0, "mutants_detected": 0, "mutants_stale": 0, "mutants_missed": [],
               "benign_run": 0, "benign_silent": 0, "benign_false_alarms": [], "samples": []}
    summary.update({"seeded_run": 0, "seeded_detected": 0, "seeded_missed": []})
    for r in sorted(results, key=lambda r: r["name"]):
        if r["kind"] == "seeded":
            if r["status"] == "ok":
                summary["seeded_run"] += 1
                if r["fired"]:
                    summary["seeded_detected"] += 1
                else:
                    summary["seeded_missed"].append(r["name"])
            continue
        path = os.path.join(VERIF, "selftest", "mutants" if r["kind"] == "mutant" else "benign", r["name"] + ".diff")
        if not os.path.exists(path):
            path = os.path.join(VERIF, "selftest", "benign_ext", r["name"] + ".diff")
        props, expect = _parse_header(path)
        if r["status"] != "ok":
            summary["mutants_stale" if r["kind"] == "mutant" else "benign_run"] += 1 if r["kind"] == "mutant" else 0
            continue
        if r["kind"] == "mutant":
            summary["mutants_run"] += 1
            primary = props and props[0] == prop
            hit = any(any(e in k for k in r["fired"]) for e in expect) if primary else bool(r["fired"])
            if hit:
                summary["mutants_detected"] += 1
                if len(summary["samples"]) < 4:
                    summary["samples"].append({"mutant": r["name"], "reported": r["fired"][:3]})
            else:
                summary["mutants_missed"].append(r["name"])
        else:
            summary["benign_run"] += 1
            if r["fired"]:
                summary["benign_false_alarms"].append({"edit": r["name"], "reported": r["fired"][:3]})
            else:
                summary["benign_silent"] += 1
    return summary


def _run_chain(ch):
    return [_eval_patch(t) for t in ch]


def run(prop, facts_by_cfg, selftest=True):
    obs = []
    extra = {}
    o, info = run_witnesses(prop)
    obs.extend(o)
    extra.update(info)
    o, info = run_fixtures(prop)
    obs.extend(o)
    extra.update(info)
    if selftest:
        t0 = time.time()
        s = run_corpus(prop)
        s["wall_s"] = round(time.time() - t0, 1)
        extra["selftest"] = s
        for m in s["mutants_missed"]:
            print("SELFTEST-MISS property=%s mutant=%s (the check did not report a corpus mutant; not a verdict about /repo)" % (prop, m))
        for m in s.get("seeded_missed", []):
            print("SELFTEST-MISS property=%s seeded=%s (a seeded change this check used to catch is no longer reported; not a verdict about /repo)" % (prop, m))
        for fa in s["benign_false_alarms"]:
            print("SELFTEST-FALSE-ALARM property=%s edit=%s reported=%s (not a verdict about /repo)" % (prop, fa["edit"], fa["reported"]))
        print("selftest: %d/%d corpus mutants detected, %d/%d seeded changes detected, %d/%d benign edits silent, %d stale (%.0fs)"
              % (s["mutants_detected"], s["mutants_run"], s.get("seeded_detected", 0), s.get("seeded_run", 0),
                 s["benign_silent"], s["benign_run"], s["mutants_stale"], s["wall_s"]))
    return obs, extra
