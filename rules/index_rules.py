"""R36 KERNEL-INDEX-MAPS: the index arithmetic of the numeric kernels, as polynomials.

The three kernels that are written as loop nests over `0..n` ranges — the matrix product
(`matmul_slice`), im2col (`unroll_blocks`' sliced closure) and the output transposition
(`expand_conv`) — address their operands with integer polynomials in the loop variables and
the (symbolic) extents.  The rule translates every load / store index of such a nest into
the exact polynomial algebra of `symalg` (lets resolved, `if flag {..} else {..}` folded
under each assignment of the Boolean flags, a counter that is incremented once per
innermost iteration replaced by the lexicographic rank of the nest) and compares it with
the row-major index the property's formula denotes.  Roles of the loop variables are read
from what their ranges are (a component of the (rows, cols, inner) triple; a window count
`(E - F)/S + 1` along an axis; the depth / filter extents) — never from names.

What is decided: which element of which operand meets which element of the result inside
one slice.  What is not: the walk over leading (batch) dimensions done by `sliced_op`,
broadcasting of the additive term, rounding."""

import itertools

from . import facts as F
from .core import Ctx
from .facts import callee, resolved, strip, peel, lit_value, walk, ARRAY
from .show import show
from .symalg import ONE,  Frac, Poly, Unsupported

RANGE = "core::ops::range::Range"


class Abstain(Exception):
    pass


class Nest:
    """loop structure and bindings of one function body together with its nested closures"""

    def __init__(self, facts, fn):
        self.facts = facts
        self.fn = fn
        self.bodies = facts.nested(fn)
        self.lets = {}          # var -> (init expr, body)
        self.loopvars = {}      # var -> (range end expr, loop node, body)
        self.tuple_src = {}     # var -> (source var, index)
        self.mut_counters = {}  # var -> init expr for `let mut v: usize = <init>`
        self.decl_loops = {}    # counter var -> loops enclosing its declaration
        self.projs = {}         # var -> (init expr, tuple index) for `let (a, b) = <if / match producing tuples>`
        self.opaque = set()     # variables bound by patterns this model does not interpret (never turned into atoms)
        self.assigned = set()   # variables that are re-assigned somewhere (other than counters)
        self.parent_loop = {}   # id(loop node) -> enclosing loops (outer..inner)
        self.loopstart = {}     # loop var -> start expression, for loops that do not start at 0
        self.pos = {}           # id(node) -> (pre-order number, enclosing loops)
        self._order = 0
        self._anon = 0
        for b in self.bodies:
            for p in facts.params(b):
                if p.get("pat"):
                    self._pat(p["pat"], None, b)
            self._scan(facts.root(b), b, [])

    def _pat(self, pat, init, b, loops=()):
        k = pat.get("k")
        if k == "Binding":
            if init is not None:
                self.lets[pat["v"]] = (init, b)
                if "Mut" in str(pat.get("mode", "")).split(",")[-1] and pat.get("ty") == "usize":
                    self.mut_counters[pat["v"]] = init
                    self.decl_loops[pat["v"]] = list(loops)
        elif k == "Leaf":
            src = F.var_of(init) if init is not None and strip(init).get("k") in ("VarRef", "UpvarRef") else None
            for s in pat["subs"]:
                if s["pat"].get("k") == "Binding":
                    if src is not None:
                        self.tuple_src[s["pat"]["v"]] = (src, s["idx"])
                    elif init is not None and strip(init).get("k") == "Tuple" and s["idx"] < len(strip(init)["fields"]):
                        self.lets[s["pat"]["v"]] = (strip(init)["fields"][s["idx"]], b)
                    elif init is not None:
                        self.projs[s["pat"]["v"]] = (init, s["idx"])
                    else:
                        self.opaque.add(s["pat"]["v"])
                else:
                    for v, _, _, _ in F.pat_bindings(s["pat"]):
                        self.opaque.add(v)
        elif k not in ("Wild", "Missing", None):
            for v, _, _, _ in F.pat_bindings(pat):
                self.opaque.add(v)

    def _scan(self, n, b, loops):
        if not isinstance(n, dict):
            return
        self._order += 1
        self.pos[id(n)] = (self._order, list(loops))
        fl = F.for_loop_parts(n)
        if fl:
            it, pat, body, loop = fl
            its = strip(it)
            if its.get("k") == "Adt" and its.get("adt") == RANGE and pat.get("k") in ("Binding", "Wild"):
                start = [f_["e"] for f_ in its["fields"] if f_["name"] == "start"]
                end = [f_["e"] for f_ in its["fields"] if f_["name"] == "end"]
                if start and end and (lit_value(start[0]) == 0 or pat.get("k") == "Binding"):
                    if lit_value(start[0]) != 0:
                        # `for j in s..n`: the variable still ranges inside 0..n; what starts later is only which elements are visited
                        self.loopstart[pat["v"]] = start[0]
                    if pat.get("k") == "Wild":
                        # `for _ in 0..n`: an index nobody reads; it still counts iterations
                        self._anon += 1
                        lv = "_%d#anon" % self._anon
                    else:
                        lv = pat["v"]
                    self.loopvars[lv] = (end[0], loop, b)
                    self.parent_loop[lv] = list(loops)
                    self._scan(body, b, loops + [lv])
                    return
            for v, _, _, _ in F.pat_bindings(pat):
                self.opaque.add(v)
            self._scan(body, b, loops + [None])
            return
        if n.get("k") == "Block":
            for s in n["stmts"]:
                if s["s"] == "let":
                    self._pat(s["pat"], s.get("init"), b, loops)
                    if s.get("init") is not None:
                        self._scan(s["init"], b, loops)
                else:
                    self._note(s["e"], loops)
                    self._scan(s["e"], b, loops)
            if n.get("e") is not None:
                self._note(n["e"], loops)
                self._scan(n["e"], b, loops)
            return
        if n.get("k") == "Match" and not str(n.get("source", "")).startswith("ForLoopDesugar"):
            for a in n["arms"]:
                for v, _, _, _ in F.pat_bindings(a["pat"]):
                    self.opaque.add(v)
        if n.get("k") == "Let":
            for v, _, _, _ in F.pat_bindings(n["pat"]):
                self.opaque.add(v)
        if n.get("k") in ("Assign", "AssignOp"):
            v = F.var_of(n["l"])
            if v and strip(n["l"]).get("k") in ("VarRef", "UpvarRef"):
                self.assigned.add(v)
        for ch in F.kids(n):
            self._scan(ch, b, loops)

    def _note(self, e, loops):
        e = strip(e)
        if isinstance(e, dict):
            e["_loops"] = list(loops)


class IdxEval:
    def __init__(self, nest, flags):
        self.nest = nest
        self.flags = flags          # var -> bool
        self.busy = set()

    def atom(self, name):
        return Frac(Poly.atom(name))

    def name_of(self, v):
        return v.split("#")[0]

    def poly(self, e, depth=0):
        e = strip(e)
        if not isinstance(e, dict) or depth > 40:
            raise Abstain("expression too deep")
        k = e.get("k")
        if k == "Literal":
            lv = lit_value(e)
            if isinstance(lv, int) and not isinstance(lv, bool):
                return Frac(lv)
            raise Abstain("non-integer literal")
        if k in ("VarRef", "UpvarRef"):
            v = e["v"]
            if v in self.nest.loopvars:
                return self.atom("i:" + v)
            if getattr(self, "_self_ref", None) == v:
                return self.atom("ctr:" + v)
            if v in self.nest.mut_counters:
                return self.counter(v, e)
            if v in self.nest.opaque:
                raise Abstain("`%s` is bound by a pattern the index model does not read" % self.name_of(v))
            if v in self.nest.assigned:
                raise Abstain("`%s` is re-assigned (not a counter of the recognised form)" % self.name_of(v))
            if v in self.nest.projs:
                init, idx = self.nest.projs[v]
                t = self.fold(init)
                if t is None or idx >= len(t["fields"]):
                    raise Abstain("`%s` comes from a tuple-valued expression that does not fold to a tuple literal" % self.name_of(v))
                return self.poly(t["fields"][idx], depth + 1)
            if v in self.nest.lets and v not in self.busy:
                self.busy.add(v)
                try:
                    return self.poly(self.nest.lets[v][0], depth + 1)
                except Abstain:
                    return self.atom("n:" + v)
                finally:
                    self.busy.discard(v)
            return self.atom("n:" + v)
        if k in ("Borrow", "Deref", "Cast", "Use"):
            return self.poly(e["e"], depth + 1)
        if k == "Block" and e.get("e") is not None:
            return self.poly(e["e"], depth + 1)
        if k == "Binary" and e.get("op") in ("Add", "Sub", "Mul"):
            a, b = self.poly(e["l"], depth + 1), self.poly(e["r"], depth + 1)
            return a + b if e["op"] == "Add" else (a - b if e["op"] == "Sub" else a * b)
        if k == "If" and e.get("else") is not None:
            cv = self.flag(e["cond"])
            if cv is None:
                raise Abstain("condition `%s` is not a flag" % show(e["cond"])[:40])
            return self.poly(e["then"] if cv else e["else"], depth + 1)
        if k == "Match":
            arm = self.match_arm(e)
            if arm is None:
                raise Abstain("match `%s` is not a match on a flag" % show(e["scrutinee"])[:40])
            return self.poly(arm, depth + 1)
        raise Abstain("index expression `%s` is not a polynomial" % show(e)[:60])

    def match_arm(self, e):
        sc = strip(e["scrutinee"])
        if isinstance(sc, dict) and sc.get("k") == "Tuple":
            vals = [self.flag(x) for x in sc["fields"]]
            if any(v is None for v in vals):
                return None
            for a in e["arms"]:
                p = a["pat"]
                if a.get("guard") is not None:
                    return None
                if p.get("k") in ("Wild", "Binding"):
                    return a["body"]
                if p.get("k") != "Leaf":
                    return None
                ok = True
                for s_ in p["subs"]:
                    q = s_["pat"]
                    if q.get("k") == "Constant" and q.get("value") in ("true", "false"):
                        if (q["value"] == "true") != vals[s_["idx"]]:
                            ok = False
                    elif q.get("k") not in ("Wild", "Binding"):
                        return None
                if ok:
                    return a["body"]
            return None
        cv = self.flag(e["scrutinee"])
        if cv is None:
            return None
        for a in e["arms"]:
            p = a["pat"]
            if a.get("guard") is not None:
                return None
            if p.get("k") == "Constant" and p.get("value") in ("true", "false"):
                if (p["value"] == "true") == cv:
                    return a["body"]
            elif p.get("k") in ("Wild", "Binding"):
                return a["body"]
            else:
                return None
        return None

    def fold(self, e, depth=0):
        """fold `if flag {..} else {..}` / `match flag {..}` / blocks down to a tuple literal"""
        e = strip(e)
        if not isinstance(e, dict) or depth > 10:
            return None
        if e.get("k") == "Tuple":
            return e
        if e.get("k") == "Block" and e.get("e") is not None and not e["stmts"]:
            return self.fold(e["e"], depth + 1)
        if e.get("k") == "If" and e.get("else") is not None:
            cv = self.flag(e["cond"])
            return None if cv is None else self.fold(e["then"] if cv else e["else"], depth + 1)
        if e.get("k") == "Match":
            arm = self.match_arm(e)
            return None if arm is None else self.fold(arm, depth + 1)
        return None

    def flag(self, cond):
        cond = strip(cond)
        if cond.get("k") in ("VarRef", "UpvarRef"):
            v = cond["v"]
            if v in self.flags:
                return self.flags[v]
            if v in self.nest.lets:
                return self.flag(self.nest.lets[v][0])
            return None
        if cond.get("k") == "Unary" and cond.get("op") == "Not":
            x = self.flag(cond["e"])
            return None if x is None else not x
        return None

    def counter(self, v, site=None):
        """`let mut v = c0;` updated only by unconditional `v += d` / `v -= d` / `v = v + d..` statements with loop-invariant d, at any
        level of a nest of `0..n` loops: value at the reading site = c0 + sum over the updates of d x (times executed before the
        site) = d x (rank of the common loops x iterations of the update's own inner loops + those of the current iteration that
        precede the site)"""
        nest = self.nest
        ups = []

        def cond_frames(ctx):
            return [(fr[0], id(fr[1]), fr[2]) for fr in ctx if len(fr) >= 3 and (fr[0] in ("if", "guard", "logic") or (fr[0] == "arm" and not str(fr[1].get("source", "")).startswith("ForLoopDesugar")))]
        site_frames = None
        if site is not None:
            for b in nest.bodies:
                for n, ctx in F.walk_ctx(nest.facts.root(b)):
                    if n is site:
                        site_frames = cond_frames(ctx)
            if site_frames is None:
                # a synthetic node (block copy): located through a node it contains
                inner = [x for x in walk(site) if id(x) in nest.pos and x is not site]
                for b in nest.bodies:
                    for n, ctx in F.walk_ctx(nest.facts.root(b)):
                        if inner and n is inner[0]:
                            site_frames = cond_frames(ctx)
        for b in nest.bodies:
            root = nest.facts.root(b)
            for n, ctx in F.walk_ctx(root):
                if n.get("k") in ("AssignOp", "Assign") and F.var_of(n["l"]) == v and strip(n["l"]).get("k") in ("VarRef", "UpvarRef"):
                    uf = cond_frames(ctx)
                    if site_frames is not None and uf == site_frames[:len(uf)]:
                        cond = False            # under the same branches as the reading site: unconditional as far as the site is concerned
                    elif site_frames is not None and uf and all(fr[0] == "if" for fr in ctx if len(fr) >= 3 and (fr[0], id(fr[1]), fr[2]) in uf):
                        # inside a branch the site is not in: irrelevant if that branch never falls through to the site
                        outer = [fr for fr in ctx if len(fr) >= 3 and fr[0] == "if" and (fr[0], id(fr[1]), fr[2]) in uf and (fr[0], id(fr[1]), fr[2]) not in site_frames]
                        leaves = outer and all(F._diverging(fr[1]["then"] if fr[2] == "then" else fr[1]["else"]) or _ends_with_return(fr[1]["then"] if fr[2] == "then" else fr[1].get("else")) for fr in outer[:1])
                        if leaves:
                            continue
                        cond = True
                    else:
                        cond = bool(uf)
                    ups.append((n, cond))
        if not ups:
            raise Abstain("counter %s is never updated" % self.name_of(v))
        decl = nest.decl_loops.get(v, [])
        saved = nest.mut_counters.pop(v)
        try:
            total = self.poly(saved)
            spos = nest.pos.get(id(site)) if site is not None else None
            for n, cond in ups:
                if cond:
                    raise Abstain("counter %s is updated conditionally" % self.name_of(v))
                upos = nest.pos.get(id(n))
                if upos is None:
                    raise Abstain("update of %s not located" % self.name_of(v))
                if n["k"] == "AssignOp":
                    op = str(n.get("op")).replace("Assign", "")
                    if op not in ("Add", "Sub"):
                        raise Abstain("counter %s is updated with `%s=`" % (self.name_of(v), op))
                    d = self.poly(n["r"])
                    if op == "Sub":
                        d = Frac(0) - d
                else:
                    # v = v + d1 - d2 ...: evaluate the right-hand side with v as a symbol of its own
                    nest.mut_counters[v] = None
                    self._self_ref = v
                    try:
                        rhs = self.poly(n["r"])
                    finally:
                        self._self_ref = None
                        nest.mut_counters.pop(v, None)
                    me = self.atom("ctr:" + v)
                    d = rhs - me
                    if any(a == "ctr:" + v for a in d.atoms()):
                        raise Abstain("counter %s is re-assigned to something other than itself plus an increment" % self.name_of(v))
                lu = upos[1]
                if any(l is None for l in lu) or lu[:len(decl)] != decl or len(lu) == len(decl):
                    raise Abstain("counter %s is not updated inside a nest of plain range loops nested in its declaration" % self.name_of(v))
                lu = lu[len(decl):]
                if any(l in nest.loopstart for l in lu):
                    raise Abstain("counter %s runs in a loop that does not start at 0" % self.name_of(v))
                if any(("i:" + l) in d.atoms() for l in lu):
                    raise Abstain("the increment of %s varies with the loops it is in" % self.name_of(v))
                if spos is None:
                    # no site given (old form): the reader sits in the update's own innermost loop, before the update
                    luse, before = lu, False
                else:
                    luse = spos[1]
                    if any(l is None for l in luse) or luse[:len(decl)] != decl:
                        raise Abstain("counter %s is read outside the loops of its declaration" % self.name_of(v))
                    luse = luse[len(decl):]
                    before = upos[0] < spos[0]
                common = []
                for x, y in zip(lu, luse):
                    if x != y:
                        break
                    common.append(x)
                rank = Frac(0)
                for i, lv in enumerate(common):
                    term = self.atom("i:" + lv)
                    for later in common[i + 1:]:
                        term = term * self.extent(later)
                    rank = rank + term
                inner = Frac(1)
                for lv in lu[len(common):]:
                    inner = inner * self.extent(lv)
                times = rank * inner + (inner if before else Frac(0))
                total = total + d * times
            return total
        finally:
            nest.mut_counters[v] = saved

    def extent(self, lv):
        return self.poly(self.nest.loopvars[lv][0])


def _ends_with_return(blk):
    blk = strip(blk) if blk is not None else None
    if not isinstance(blk, dict):
        return False
    if blk.get("k") == "Return":
        return True
    if blk.get("k") == "Block":
        if blk.get("e") is not None:
            return _ends_with_return(blk["e"])
        if blk["stmts"] and blk["stmts"][-1]["s"] == "expr":
            return _ends_with_return(blk["stmts"][-1]["e"])
    return False


def _origin_tuple(nest, v, hops=0):
    """(source var, index) if v is a component of a tuple-typed variable"""
    while hops < 6:
        if v in nest.tuple_src:
            return nest.tuple_src[v]
        if v in nest.lets and strip(nest.lets[v][0]).get("k") in ("VarRef", "UpvarRef"):
            v = strip(nest.lets[v][0])["v"]
            hops += 1
            continue
        return None
    return None


INDEX_FNS = ("core::ops::index::Index::index", "core::ops::index::IndexMut::index_mut")


def _as_index(n):
    """normalise `a[i]` (built-in Index node or Index::index / IndexMut::index_mut call) to {'e': base, 'i': index}"""
    n = peel(n)
    if isinstance(n, dict) and n.get("k") == "Index":
        return n
    if isinstance(n, dict) and n.get("k") == "Call" and callee(n) in INDEX_FNS and len(n["args"]) == 2:
        return {"k": "Index", "e": n["args"][0], "i": n["args"][1], "sp": n.get("sp"), "ty": n.get("ty"), "_call": n}
    return None


def _accesses(nest):
    """[(kind, index node {'e','i'}, statement node, body)] for slice loads / stores: kind in load, store, store<Op>"""
    out = []
    fl = nest.facts.float or "f64"
    for b in nest.bodies:
        root = nest.facts.root(b)
        stores = set()
        for n in walk(root):
            if n.get("k") in ("Assign", "AssignOp"):
                ix = _as_index(n["l"])
                ity = (ix.get("ty") or "").replace("&mut ", "").lstrip("&") if ix is not None else ""
                if ix is not None and ity == fl:
                    stores.add(id(ix.get("_call", ix)))
                    out.append(("store" if n["k"] == "Assign" else "store" + str(n.get("op", "")).replace("Assign", ""), ix, n, b))
        # block copies: `out[a..a+n].copy_from_slice(&in[b..b+n])` is `for t in 0..n { out[a+t] = in[b+t] }`
        for n in walk(root):
            if n.get("k") == "Call" and (callee(n) or "").rsplit("::", 1)[-1] in ("copy_from_slice", "clone_from_slice") and len(n["args"]) == 2:
                dst = _range_slice(nest, n["args"][0])
                src = _range_slice(nest, n["args"][1])
                if dst is None or src is None:
                    continue
                nest._anon += 1
                tv = "_t%d#copy" % nest._anon
                ext = {"k": "Binary", "op": "Sub", "ty": "usize", "l": dst[2], "r": dst[1]}
                loops_here = (nest.pos.get(id(n)) or (0, []))[1]
                nest.loopvars[tv] = (ext, n, b)
                nest.parent_loop[tv] = list(loops_here)
                tref = {"k": "VarRef", "ty": "usize", "v": tv}
                for kind_, (base_, lo_, _hi) in (("store", dst), ("load", src)):
                    ix = {"k": "Index", "e": base_, "i": {"k": "Binary", "op": "Add", "ty": "usize", "l": lo_, "r": tref}, "ty": fl, "sp": n.get("sp"), "_copy": True}
                    # reads of counters inside the synthetic index happen where the copy is
                    nest.pos[id(ix["i"])] = nest.pos.get(id(n), (0, []))
                    for x_ in walk(lo_):
                        nest.pos.setdefault(id(x_), nest.pos.get(id(n), (0, [])))
                    out.append((kind_, ix, n, b))
        for n in walk(root):
            if id(n) in stores:
                continue
            ty = (n.get("ty") or "").lstrip("&")
            if n.get("k") == "Index" and ty == fl:
                out.append(("load", n, n, b))
            elif n.get("k") == "Call" and callee(n) == INDEX_FNS[0] and ty == fl and len(n["args"]) == 2:
                out.append(("load", _as_index(n), n, b))
    return out


def _range_slice(nest, e, depth=0):
    """(base slice expr, lo, hi) if e denotes `base[lo..hi]` (through borrows, derefs and one level of let)"""
    e = peel(e)
    if not isinstance(e, dict) or depth > 4:
        return None
    if e.get("k") in ("VarRef", "UpvarRef") and e["v"] in nest.lets:
        return _range_slice(nest, nest.lets[e["v"]][0], depth + 1)
    base = rng = None
    if e.get("k") == "Index":
        base, rng = e["e"], strip(e["i"])
    elif e.get("k") == "Call" and callee(e) in INDEX_FNS and len(e["args"]) == 2:
        base, rng = e["args"][0], strip(e["args"][1])
    if base is None or not (isinstance(rng, dict) and rng.get("k") == "Adt" and rng.get("adt") == RANGE):
        return None
    lo = [f_["e"] for f_ in rng["fields"] if f_["name"] == "start"]
    hi = [f_["e"] for f_ in rng["fields"] if f_["name"] == "end"]
    if not lo or not hi:
        return None
    return (base, lo[0], hi[0])


def _base(idx_node):
    """variable (and optional constant sub-index `arrays[0]`) a slice access goes through"""
    base = peel(idx_node["e"])
    if isinstance(base, dict) and base.get("k") == "Index":
        return F.var_of(base["e"]), lit_value(base["i"])
    if isinstance(base, dict) and base.get("k") == "Field":
        return F.var_of(base["e"]), base.get("name")
    return F.var_of(base), None


def _eq(c, inst, where, got, want, what):
    if got.equals(want):
        c.ok(inst, where, "%s = %r" % (what, want))
    else:
        c.bad(inst, where, "%s must be %r (row-major element of the documented formula) but the code computes %r" % (what, want, got))


# ====================================================================================== matrix product kernel

def _matmul_kernel(facts, c):
    fl = facts.float or "f64"
    ks = [b for b in facts.fns() if (b.get("inputs") or [])[:1] == ["&mut [%s]" % fl] and "(usize, usize, usize)" in (b.get("inputs") or [])
          and (b.get("inputs") or []).count("(&[%s], bool)" % fl) == 2]
    c.count("matrix-product kernels (values, (rows, cols, inner), (a, ta), (b, tb))", len(ks))
    for b in ks:
        name = b.get("name")
        where0 = "%s:%d" % (F.rel(b["file"]), b["sp"][0])
        nest = Nest(facts, b)
        ps = [p for p in facts.params(b) if p.get("pat")]
        pv = [p["pat"].get("v") for p in ps]
        # roles: loop variables by the component of the dimension triple their range ends at
        role = {}
        for lv, (end, _, _) in nest.loopvars.items():
            ev = F.var_of(end)
            o = _origin_tuple(nest, ev) if ev else None
            if o and o[0] == pv[1]:
                role[{0: "r", 1: "j", 2: "k"}[o[1]]] = lv
        if sorted(role) != ["j", "k", "r"]:
            c.unk("matmul:%s:loops" % name, where0, "the kernel is not a nest of three `0..n` loops over the (rows, cols, inner) triple")
            continue

        def flagvar(pi):
            for v, (src, idx) in nest.tuple_src.items():
                if src == pv[pi] and idx == 1:
                    return v
            return None

        def slicevar(pi):
            for v, (src, idx) in nest.tuple_src.items():
                if src == pv[pi] and idx == 0:
                    return v
            return None
        fa, fb, sa, sb = flagvar(2), flagvar(3), slicevar(2), slicevar(3)
        if None in (fa, fb, sa, sb):
            c.unk("matmul:%s:operands" % name, where0, "the (slice, transpose) pairs are not destructured in a recognised form")
            continue
        acc = _accesses(nest)
        for ta, tb in itertools.product((False, True), repeat=2):
            tag = "matmul:%s:ta=%s,tb=%s" % (name, "T" if ta else "F", "T" if tb else "F")
            ev = IdxEval(nest, {fa: ta, fb: tb})
            A = ev.atom
            r, j, k = A("i:" + role["r"]), A("i:" + role["j"]), A("i:" + role["k"])
            try:
                R, J, K = ev.extent(role["r"]), ev.extent(role["j"]), ev.extent(role["k"])
                want = {"a": (k * R + r) if ta else (r * K + k), "b": (j * K + k) if tb else (k * J + j), "out": r * J + j}
                seen = set()
                for kind, idx, node, body in acc:
                    bv, sub = _base(idx)
                    which = "a" if bv == sa else ("b" if bv == sb else ("out" if bv == pv[0] else None))
                    if which is None:
                        continue
                    if which == "out" and kind == "load":
                        # `out[i] = out[i] + sum`: the re-read must be of the same element
                        _eq(c, tag + ":out-reread", F.loc(body, node), ev.poly(idx["i"]), want["out"], "index of the result element re-read for accumulation")
                        continue
                    if (which == "out") != kind.startswith("store"):
                        c.bad(tag + ":" + which, F.loc(body, node), "%s is %s" % ({"a": "operand A", "b": "operand B", "out": "the result"}[which], "written" if kind.startswith("store") else "only read"))
                        continue
                    seen.add(which)
                    got = ev.poly(idx["i"])
                    _eq(c, tag + ":" + which, F.loc(body, node), got, want[which],
                        {"a": "index into op(A) for element (r, k)", "b": "index into op(B) for element (k, j)", "out": "index of result element (r, j)"}[which])
                    if which == "out":
                        acc_ok = kind == "storeAdd"
                        if kind == "store":
                            rhs = strip(node["r"])
                            if rhs.get("k") == "Binary" and rhs.get("op") == "Add":
                                for side in (rhs["l"], rhs["r"]):
                                    ix2 = _as_index(side)
                                    if ix2 is not None and _base(ix2)[0] == pv[0]:
                                        try:
                                            acc_ok = ev.poly(ix2["i"]).equals(got)
                                        except (Abstain, Unsupported):
                                            acc_ok = False
                        c.check(acc_ok, tag + ":accumulate", F.loc(body, node), "the dot product is added onto the (pre-set) result slice",
                                "the result element is written with `%s` instead of being added onto the additive term" % kind)
                if seen != {"a", "b", "out"}:
                    c.unk(tag + ":coverage", where0, "not all of A, B and the result are accessed in a recognised form (%s)" % sorted(seen))
            except (Abstain, Unsupported) as ex:
                c.unk(tag, where0, "outside the index algebra: %s" % ex)


# ====================================================================================== im2col and output transposition

def _count_axis(nest, ev_, end):
    """('count', axis) if the range end is a window count (E - F)/S + 1; axis from the pair component of the stride"""
    v = F.var_of(end)
    hops = 0
    e = end
    while v and v in nest.lets and hops < 4:
        e = nest.lets[v][0]
        s = strip(e)
        if s.get("k") in ("VarRef", "UpvarRef"):
            v = s["v"]
            hops += 1
            continue
        break
    s = strip(e)
    if s.get("k") == "Binary" and s.get("op") == "Add" and lit_value(s["r"]) == 1:
        d = strip(s["l"])
        while isinstance(d, dict) and d.get("k") == "Block" and not d["stmts"] and d.get("e") is not None:
            d = strip(d["e"])
        if d.get("k") == "Binary" and d.get("op") == "Div":
            sv = F.var_of(d["r"])
            o = _origin_tuple(nest, sv) if sv else None
            num = strip(d["l"])
            while isinstance(num, dict) and num.get("k") == "Block" and not num["stmts"] and num.get("e") is not None:
                num = strip(num["e"])
            if o and num.get("k") == "Binary" and num.get("op") == "Sub":
                fv = F.var_of(num["r"])
                fo = _origin_tuple(nest, fv) if fv else None
                return ("count", o[1], sv, fv if fo and fo[1] == o[1] else None, F.var_of(num["l"]))
    return None


def _unroll_kernel(facts, c):
    fns = [b for b in facts.fns() if b.get("impl_self") == ARRAY and b.get("impl_trait_def") is None
           and (b.get("inputs") or []) == ["&" + ARRAY, "(usize, usize)", "(usize, usize)"]]
    c.count("im2col routines (image, stride pair, filter pair)", len(fns))
    for b in fns:
        name = b.get("name")
        where0 = "%s:%d" % (F.rel(b["file"]), b["sp"][0])
        nest = Nest(facts, b)
        acc = [a for a in _accesses(nest) if a[3] is not b]       # block copies register their implicit index as a loop
        ev = IdxEval(nest, {})

        def end_var(lv):
            """the variable a loop's extent is: directly, or after simplification (`a + n - a` for a block copy)"""
            end = nest.loopvars[lv][0]
            v = F.var_of(end)
            if v:
                return v, end
            try:
                p_ = ev.poly(end)
            except (Abstain, Unsupported):
                return None, end
            sg = p_.n.single() if p_.d == Poly.const(1) else None
            if sg is not None and sg[0] == 1 and len(sg[1]) == 1 and sg[1][0][0].startswith("n:") and sg[1][0][1] == ONE:
                return sg[1][0][0][2:], end
            return None, end

        def roles_of(lvs):
            roles, info = {}, {}
            for lv in lvs:
                ca = _count_axis(nest, ev, nest.loopvars[lv][0])
                if ca:
                    roles[("win", ca[1])] = lv
                    info[ca[1]] = ca
            for lv in lvs:
                if lv in roles.values():
                    continue
                v, _ = end_var(lv)
                o = _origin_tuple(nest, v) if v else None
                if o and any(info.get(ax) and info[ax][3] and _origin_tuple(nest, info[ax][3]) == o for ax in (0, 1)):
                    roles[("flt", o[1])] = lv
                elif v and ("depth", 0) not in roles:
                    roles[("depth", 0)] = lv
            return roles, info
        need = [("win", 0), ("win", 1), ("depth", 0), ("flt", 0), ("flt", 1)]
        # group the accesses by the loops around them (plus the implicit index of a block copy)
        groups = {}
        for kind, idx, node, body in acc:
            loops_here = list((nest.pos.get(id(node)) or (0, []))[1])
            if idx.get("_copy"):
                tvs = [x["v"] for x in walk(idx["i"]) if x.get("k") == "VarRef" and x["v"].endswith("#copy")]
                loops_here += tvs
            groups.setdefault(tuple(loops_here), []).append((kind, idx, node, body))
        main = None
        others = []
        for lvs, items in groups.items():
            if any(l is None for l in lvs):
                others.append((lvs, items, "a loop that is not a `0..n` range"))
                continue
            roles, info = roles_of(lvs)
            if all(k in roles for k in need) and len(lvs) == 5 and main is None:
                main = (lvs, items, roles, info)
            else:
                others.append((lvs, items, None))
        if main is None:
            c.unk("unroll:%s:loops" % name, where0, "no group of loads / stores sits in a nest of five `0..n` loops over (window rows, window cols, depth, filter rows, filter cols): %s"
                  % sorted(str(k) for lvs, items in groups.items() for k in roles_of([l for l in lvs if l is not None])[0]))
            continue
        lvs, items, roles, info = main
        A = ev.atom
        r, cc, k, m, n_ = (A("i:" + roles[x]) for x in need)
        try:
            Cc = ev.extent(roles[("win", 1)])
            K = ev.extent(roles[("depth", 0)])
            Fr, Fc = ev.extent(roles[("flt", 0)]), ev.extent(roles[("flt", 1)])
            sr, sc = A("n:" + info[0][2]), A("n:" + info[1][2])
            Rimg, Cimg = A("n:" + info[0][4]), A("n:" + info[1][4])
            want_src = k * Rimg * Cimg + (r * sr + m) * Cimg + (cc * sc + n_)
            want_dst = (r * Cc + cc) * (K * Fr * Fc) + (k * Fr + m) * Fc + n_
            done = set()
            for kind, idx, node, body in items:
                got = ev.poly(idx["i"])
                cps = [p for p in facts.params(body) if p.get("pat")]
                outv = cps[0]["pat"].get("v") if cps and cps[0]["pat"].get("k") == "Binding" else None
                if kind == "load" and _base(idx)[0] == outv:
                    _eq(c, "unroll:%s:destination#reread" % name, F.loc(body, node), got, want_dst, "unrolled position re-read")
                    continue
                if kind == "load":
                    done.add("src")
                    _eq(c, "unroll:%s:source" % name, F.loc(body, node), got, want_src, "image element read for window (r, c), depth k, filter position (m, n)")
                else:
                    done.add("dst")
                    _eq(c, "unroll:%s:destination" % name, F.loc(body, node), got, want_dst, "position of that element in the unrolled matrix (row r*cols+c, column (k*frows+m)*fcols+n)")
                    c.check(kind == "store", "unroll:%s:plain-store" % name, F.loc(body, node), "each unrolled position is written once", "the unrolled matrix is written with `%s`" % kind)
            if done != {"src", "dst"}:
                c.unk("unroll:%s:coverage" % name, where0, "load / store of the im2col closure not recognised (%s)" % sorted(done))
        except (Abstain, Unsupported) as ex:
            c.unk("unroll:%s" % name, where0, "outside the index algebra: %s" % ex)
        # other groups: special-case branches with loops of their own.  They are judged only by a rule that can read them (none yet):
        # reported as not decided, never taken for the main nest
        for lvs2, items2, why2 in others:
            if not any(kd.startswith("store") for kd, _, _, _ in items2):
                continue
            first = items2[0]
            if why2 is None:
                verdict = _judge_unroll_branch(facts, nest, ev, lvs2, items2, roles, info, end_var)
                if verdict is not None:
                    if verdict[0] == "ok":
                        c.ok("unroll:%s:other-path" % name, F.loc(first[3], first[2]), verdict[1])
                    else:
                        c.bad("unroll:%s:other-path" % name, F.loc(first[3], first[2]), verdict[1])
                    continue
            c.unk("unroll:%s:other-path" % name, F.loc(first[3], first[2]), "another group of stores into the unrolled matrix (a special-case branch over %d loop(s)%s) is not compared with the documented positions"
                  % (len(lvs2), ", " + why2 if why2 else ""))


def _eval_frac(fr, env):
    """numeric value of a polynomial fraction under an assignment of its atoms (None if an atom is unassigned)"""
    from fractions import Fraction
    from .symalg import lf_const

    def ev_poly(p_):
        tot = Fraction(0)
        for m_, c_ in p_.t.items():
            term = Fraction(c_)
            for a, e in m_:
                if a not in env:
                    return None
                ec = lf_const(e)
                if ec is None or ec.denominator != 1:
                    return None
                term *= Fraction(env[a]) ** int(ec)
            tot += term
        return tot
    n_, d_ = ev_poly(fr.n), ev_poly(fr.d)
    if n_ is None or d_ is None or d_ == 0:
        return None
    return n_ / d_


def _judge_unroll_branch(facts, nest, ev, lvs, items, roles, info, end_var):
    """A special-case branch of the im2col routine whose store and load indices are polynomials in its own loops: compared with the
    documented gather on a grid of small geometries that satisfy the branch's guard (the closed forms are evaluated, nothing is run).
    -> ('ok' | 'bad', text) or None (not decidable here)"""
    stores = [(idx, node, body) for kd, idx, node, body in items if kd == "store"]
    loads = [(idx, node, body) for kd, idx, node, body in items if kd == "load"]
    if len(stores) != 1 or len(loads) != 1:
        return None
    try:
        D, S = ev.poly(stores[0][0]["i"]), ev.poly(loads[0][0]["i"])
        exts = [(lv, ev.extent(lv)) for lv in lvs]
    except (Abstain, Unsupported):
        return None
    need = [("win", 0), ("win", 1), ("depth", 0), ("flt", 0), ("flt", 1)]
    var_of_role = {}
    for ax in (0, 1):
        var_of_role[("stride", ax)] = info[ax][2]
        var_of_role[("filter", ax)] = info[ax][3]
        var_of_role[("image", ax)] = info[ax][4]
        var_of_role[("count", ax)] = end_var(roles[("win", ax)])[0]
    var_of_role[("depth", 0)] = end_var(roles[("depth", 0)])[0]
    if any(v is None for v in var_of_role.values()):
        return None
    node = stores[0][1]
    # the guard of the branch: conditions on the path to the store, inside the closure body
    ctx_of = None
    for n_, ctx in F.walk_ctx(nest.facts.root(stores[0][2])):
        if n_ is node:
            ctx_of = ctx
    guards = F.path_facts(ctx_of) if ctx_of is not None else []

    def numeric(e, env, depth=0):
        e = strip(e)
        if not isinstance(e, dict) or depth > 12:
            return None
        k = e.get("k")
        if k == "Literal":
            v = lit_value(e)
            return v if isinstance(v, (int, bool)) else None
        if k in ("VarRef", "UpvarRef"):
            if ("n:" + e["v"]) in env:
                return env["n:" + e["v"]]
            if e["v"] in nest.lets:
                return numeric(nest.lets[e["v"]][0], env, depth + 1)
            return None
        if k in ("Borrow", "Deref", "Use", "Cast"):
            return numeric(e["e"], env, depth + 1)
        if k == "Block" and e.get("e") is not None and not e["stmts"]:
            return numeric(e["e"], env, depth + 1)
        if k == "Binary":
            a, b_ = numeric(e["l"], env, depth + 1), numeric(e["r"], env, depth + 1)
            if a is None or b_ is None:
                return None
            op = e["op"]
            if op == "Div":
                return a // b_ if b_ else None
            if op == "Rem":
                return a % b_ if b_ else None
            return {"Add": a + b_, "Sub": a - b_, "Mul": a * b_, "Eq": a == b_, "Ne": a != b_, "Lt": a < b_, "Le": a <= b_, "Gt": a > b_, "Ge": a >= b_}.get(op)
        if k == "LogicalOp":
            a, b_ = numeric(e["l"], env, depth + 1), numeric(e["r"], env, depth + 1)
            if a is None or b_ is None:
                return None
            return (a and b_) if e["op"] == "And" else (a or b_)
        if k == "Unary" and e.get("op") == "Not":
            a = numeric(e["e"], env, depth + 1)
            return None if a is None else (not a)
        return None
    taken = 0
    atoms = set(D.atoms()) | set(S.atoms())
    for _, x_ in exts:
        atoms |= set(x_.atoms())
    for K in (1, 2):
        for R in (2, 3, 4):
            for C in (2, 3, 4, 5):
                for Fr in range(1, R + 1):
                    for Fc in range(1, C + 1):
                        for sr in (1, 2, 3):
                            for sc in (1, 2, 3):
                                Cr, Cc = (R - Fr) // sr + 1, (C - Fc) // sc + 1
                                env = {"n:" + var_of_role[("stride", 0)]: sr, "n:" + var_of_role[("stride", 1)]: sc,
                                       "n:" + var_of_role[("filter", 0)]: Fr, "n:" + var_of_role[("filter", 1)]: Fc,
                                       "n:" + var_of_role[("image", 0)]: R, "n:" + var_of_role[("image", 1)]: C,
                                       "n:" + var_of_role[("count", 0)]: Cr, "n:" + var_of_role[("count", 1)]: Cc,
                                       "n:" + var_of_role[("depth", 0)]: K}
                                # other named quantities (e.g. the unrolled block size): from their definitions
                                for a in sorted(atoms):
                                    if a.startswith("n:") and a not in env:
                                        v = numeric({"k": "VarRef", "v": a[2:]}, env)
                                        if v is None:
                                            return None
                                        env[a] = v
                                ok_ = True
                                for cond, truth in guards:
                                    v = numeric(cond, env)
                                    if v is None:
                                        return None
                                    if bool(v) != truth:
                                        ok_ = False
                                        break
                                if not ok_:
                                    continue
                                taken += 1
                                ranges = []
                                for lv, x_ in exts:
                                    n_ = _eval_frac(x_, env)
                                    if n_ is None or n_.denominator != 1 or n_ < 0 or n_ > 64:
                                        return None
                                    ranges.append(range(int(n_)))
                                seen_d = set()
                                for tup in itertools.product(*ranges):
                                    env2 = dict(env)
                                    for (lv, _), v in zip(exts, tup):
                                        env2["i:" + lv] = v
                                    d, s_ = _eval_frac(D, env2), _eval_frac(S, env2)
                                    if d is None or s_ is None:
                                        return None
                                    d, s_ = int(d), int(s_)
                                    seen_d.add(d)
                                    U = K * Fr * Fc
                                    w, off = divmod(d, U)
                                    r_, c_ = divmod(w, Cc)
                                    k_, rem = divmod(off, Fr * Fc)
                                    m_, n__ = divmod(rem, Fc)
                                    want = k_ * R * C + (r_ * sr + m_) * C + (c_ * sc + n__)
                                    if s_ != want:
                                        return ("bad", "a special-case branch of the im2col routine reads the wrong image element: for an image of %d x %d x %d, a %d x %d filter and stride (%d, %d) "
                                                "(a geometry its guard admits) it copies image element %d into unrolled position %d, where the documented gather puts element %d (window (%d, %d), depth %d, filter position (%d, %d))"
                                                % (K, R, C, Fr, Fc, sr, sc, s_, d, want, r_, c_, k_, m_, n__))
                                if len(seen_d) != Cr * Cc * K * Fr * Fc:
                                    return ("bad", "a special-case branch of the im2col routine fills %d of the %d unrolled positions for an image of %d x %d x %d, a %d x %d filter and stride (%d, %d)"
                                            % (len(seen_d), Cr * Cc * K * Fr * Fc, K, R, C, Fr, Fc, sr, sc))
    if taken == 0:
        return None
    return ("ok", "a special-case branch of the im2col routine agrees with the documented gather on all %d small geometries its guard admits (closed-form indices evaluated)" % taken)


def _transpose_kernel(facts, c):
    fns = [b for b in facts.fns() if b.get("impl_self") == ARRAY and b.get("impl_trait_def") is None
           and (b.get("inputs") or []) == ["&" + ARRAY, "(usize, usize)"] and b.get("output") == ARRAY]
    c.count("output transpositions (array, (rows, cols) window counts)", len(fns))
    for b in fns:
        name = b.get("name")
        where0 = "%s:%d" % (F.rel(b["file"]), b["sp"][0])
        nest = Nest(facts, b)
        ev = IdxEval(nest, {})
        own = [lv for lv, (end, _, body) in nest.loopvars.items() if body is b]
        if len(own) != 2:
            c.unk("transpose:%s:loops" % name, where0, "the forward part is not a nest of two `0..n` loops (%d found)" % len(own))
            continue
        outer = [lv for lv in own if not nest.parent_loop.get(lv)]
        inner = [lv for lv in own if nest.parent_loop.get(lv)]
        if len(outer) != 1 or len(inner) != 1:
            c.unk("transpose:%s:loops" % name, where0, "the two loops are not nested")
            continue
        # roles: the loop over the input's LAST dimension (the filters: its extent is read from `dimensions`) and the loop over the
        # window positions (everything before it); either may be the outer one
        def extent_from_dims(lv, hops=0):
            e_ = strip(nest.loopvars[lv][0])
            while isinstance(e_, dict) and e_.get("k") in ("VarRef", "UpvarRef") and e_["v"] in nest.lets and hops < 4:
                e_ = strip(nest.lets[e_["v"]][0])
                hops += 1
            if not isinstance(e_, dict):
                return False
            ix = _as_index(e_)
            if ix is None:
                return False
            _, ch = F.field_chain(ix["e"])
            return ch[-1:] == ["dimensions"]
        fd = [lv for lv in own if extent_from_dims(lv)]
        if len(fd) != 1:
            c.unk("transpose:%s:loops" % name, where0, "which of the two loops runs over the input's last dimension is not recognised")
            continue
        fl_, pl_ = fd[0], [lv for lv in own if lv != fd[0]][0]
        f_, p_ = ev.atom("i:" + fl_), ev.atom("i:" + pl_)
        try:
            Fn, Pn = ev.extent(fl_), ev.extent(pl_)
            done = set()
            for kind, idx, node, body in _accesses(nest):
                if body is not b:
                    continue
                got = ev.poly(idx["i"])
                if kind == "load":
                    done.add("src")
                    _eq(c, "transpose:%s:source" % name, F.loc(body, node), got, p_ * Fn + f_, "element (position, filter) of the [positions, filters] input matrix")
                else:
                    done.add("dst")
                    _eq(c, "transpose:%s:destination" % name, F.loc(body, node), got, f_ * Pn + p_, "element (filter, position) of the [filters, positions] result")
            if done != {"src", "dst"}:
                c.unk("transpose:%s:coverage" % name, where0, "load / store not recognised (%s)" % sorted(done))
        except (Abstain, Unsupported) as ex:
            c.unk("transpose:%s" % name, where0, "outside the index algebra: %s" % ex)


def r36_matmul_index_maps(facts):
    """MATMUL-KERNEL: for each of the four transposition assignments the kernel reads op(A)[r,k], op(B)[k,j] at their row-major positions and adds their product onto result[r,j] (index polynomials compared in an exact algebra)"""
    c = Ctx("R36", facts, "matrix-product kernel: operand and result indices are the row-major positions of op(A)[r,k], op(B)[k,j], C[r,j]")
    _matmul_kernel(facts, c)
    n = sum(1 for o in c.obs if o.key.split("@", 1)[1].startswith("matmul:"))
    c.floor("matrix-product index obligations", n, 1)
    return c


def r37_conv_index_maps(facts):
    """CONV-KERNELS: im2col reads image[k, r*sr+m, c*sc+n] into row r*cols+c, column (k*frows+m)*fcols+n of the unrolled matrix, and the output transposition maps [windows, filters] to [filters, windows] (index polynomials compared in an exact algebra)"""
    c = Ctx("R37", facts, "convolution kernels: im2col gather / layout and output transposition as index polynomials")
    from .inline import kernel_view
    facts = kernel_view(facts)
    _unroll_kernel(facts, c)
    _transpose_kernel(facts, c)
    n = sum(1 for o in c.obs if o.key.split("@", 1)[1].split(":")[0] in ("unroll", "transpose"))
    c.floor("convolution index obligations", n, 2)
    return c


# ====================================================================================== matrix product: shape derivation

class DimEval:
    """usize / bool expressions over `X.dimensions`, `X.dimensions.len()` and Boolean flags, for operands of rank >= 2:
    values ('int', n) | ('dimR', X, k) = X.dimensions[len - k] | ('len', X) | ('bool', b) | ('unk', why)"""

    def __init__(self, facts, lets, flags, names, ranks=None, eq=None, unknown_as=None):
        self.facts, self.lets, self.flags, self.names = facts, lets, flags, names
        self.busy = set()
        self.unknown_as = unknown_as    # the truth assumed for a condition this evaluator cannot decide (None: give up)
        self.assumed = []
        self.ranks = ranks          # {'A': n, 'B': m}: rank comparisons are decided for these ranks (any rank >= 1)
        self.eq = eq                # callable(l, r) -> bool | None: the truth assumed for an equality between two dimensions

    def arr(self, e):
        v = F.var_of(e)
        hops = 0
        while v and v not in self.names and v in self.lets and hops < 4:
            nxt = F.var_of(self.lets[v])
            if not nxt:
                break
            v = nxt
            hops += 1
        return self.names.get(v)

    def ev(self, e, depth=0):
        e = strip(e)
        if not isinstance(e, dict) or depth > 30:
            return ("unk", "depth")
        k = e.get("k")
        if k == "Literal":
            lv = lit_value(e)
            if isinstance(lv, bool):
                return ("bool", lv)
            if isinstance(lv, int):
                return ("int", lv)
            return ("unk", "literal")
        if k in ("VarRef", "UpvarRef"):
            v = e["v"]
            if v in self.flags:
                return ("bool", self.flags[v])
            if v in self.lets and v not in self.busy:
                self.busy.add(v)
                try:
                    return self.ev(self.lets[v], depth + 1)
                finally:
                    self.busy.discard(v)
            return ("unk", "variable %s" % v.split("#")[0])
        if k == "Field" and e.get("name") == "dimensions":
            r_, ch = F.field_chain(e)
            a = self.arr(r_) if ch == ["dimensions"] else None
            return ("dimsof", a) if a else ("unk", "dimensions of something else")
        if k in ("Borrow", "Deref", "Use", "Cast"):
            return self.ev(e["e"], depth + 1)
        if k == "Call" and callee(e) in ("core::ops::deref::Deref::deref", "alloc::vec::Vec::<T, A>::as_slice", "core::convert::AsRef::as_ref", "core::borrow::Borrow::borrow") and e["args"]:
            return self.ev(e["args"][0], depth + 1)
        if k == "Call" and callee(e) in ("core::cmp::max_by_key", "core::cmp::min_by_key") and len(e["args"]) == 3 and self.ranks is not None:
            x, y = self.ev(e["args"][0], depth + 1), self.ev(e["args"][1], depth + 1)
            clo = strip(e["args"][2])
            by_len = False
            if isinstance(clo, dict) and clo.get("k") == "Closure":
                cb = self.facts.body(clo["closure"])
                root = strip(self.facts.root(cb)) if cb is not None else None
                while isinstance(root, dict) and root.get("k") == "Block" and not root["stmts"] and root.get("e") is not None:
                    root = strip(root["e"])
                by_len = isinstance(root, dict) and root.get("k") == "Call" and callee(root) in ("alloc::vec::Vec::<T, A>::len", "core::slice::<impl [T]>::len")
            if x[0] == "dimsof" and y[0] == "dimsof" and by_len and x[1] in self.ranks and y[1] in self.ranks:
                kx, ky = self.ranks[x[1]], self.ranks[y[1]]
                if callee(e).endswith("max_by_key"):
                    return y if ky >= kx else x      # the second argument on a tie
                return x if kx <= ky else y          # min_by_key: the first argument on a tie
            return ("unk", "max_by_key / min_by_key on something else")
        if k == "Block" and e.get("e") is not None:
            lets2 = dict(self.lets)
            for s in e["stmts"]:
                if s["s"] == "let" and s["pat"].get("k") == "Binding" and s.get("init") is not None:
                    lets2[s["pat"]["v"]] = s["init"]
            old = self.lets
            self.lets = lets2
            try:
                return self.ev(e["e"], depth + 1)
            finally:
                self.lets = old
        if k == "Unary" and e.get("op") == "Not":
            x = self.ev(e["e"], depth + 1)
            return ("bool", not x[1]) if x[0] == "bool" else ("unk", "negation")
        if k == "LogicalOp":
            l = self.ev(e["l"], depth + 1)
            if l[0] == "bool" and e["op"] == "And" and not l[1]:
                return ("bool", False)
            if l[0] == "bool" and e["op"] == "Or" and l[1]:
                return ("bool", True)
            r = self.ev(e["r"], depth + 1)
            if l[0] == "bool" and r[0] == "bool":
                return ("bool", (l[1] and r[1]) if e["op"] == "And" else (l[1] or r[1]))
            if l[0] == "bool" and r[0] == "unk" and self.unknown_as is not None:
                self.assumed.append(show(e["r"])[:60])
                return ("bool", self.unknown_as)
            if l[0] == "bool":
                return r
            return ("unk", "logical operation")
        if k == "If" and e.get("else") is not None:
            cv = self.ev(e["cond"], depth + 1)
            if cv[0] != "bool":
                return ("unk", "condition `%s` undecided" % show(e["cond"])[:50])
            return self.ev(e["then"] if cv[1] else e["else"], depth + 1)
        if k == "Call" and callee(e) in ("alloc::vec::Vec::<T, A>::len", "core::slice::<impl [T]>::len") and e["args"]:
            r_, ch = F.field_chain(e["args"][0])
            a = self.arr(r_) if ch == ["dimensions"] else None
            return ("len", a) if a else ("unk", "len of something else")
        if k == "Binary":
            l, r = self.ev(e["l"], depth + 1), self.ev(e["r"], depth + 1)
            op = e["op"]
            if self.ranks is not None:
                def num(x):
                    if x[0] == "int":
                        return x[1]
                    if x[0] == "len" and x[1] in self.ranks:
                        return self.ranks[x[1]]
                    return None
                ln, rn = num(l), num(r)
                if ln is not None and rn is not None and op in ("Lt", "Le", "Gt", "Ge", "Eq", "Ne") and (l[0] == "len" or r[0] == "len"):
                    return ("bool", {"Lt": ln < rn, "Le": ln <= rn, "Gt": ln > rn, "Ge": ln >= rn, "Eq": ln == rn, "Ne": ln != rn}[op])
                if l[0] == "len" and r[0] == "int" and op == "Sub":
                    return ("lenminus", l[1], r[1]) if r[1] <= self.ranks.get(l[1], 0) else ("unk", "index before the first dimension")
                if op in ("Eq", "Ne") and l[0] == "dimR" and r[0] == "dimR" and self.eq is not None:
                    t = self.eq(l, r)
                    if t is not None:
                        return ("bool", t if op == "Eq" else not t)
                return ("unk", "binary %s" % op)
            if l[0] == "len" and r[0] == "int":
                # operands of rank >= 2 (the generic case the formula is stated for)
                if op == "Lt":
                    return ("bool", False) if r[1] <= 2 else ("unk", "rank comparison")
                if op == "Ge":
                    return ("bool", True) if r[1] <= 2 else ("unk", "rank comparison")
                if op == "Sub":
                    return ("lenminus", l[1], r[1])
            if l[0] == "len" and r[0] == "len" and op in ("Ge", "Lt", "Gt", "Le"):
                return ("unk", "rank comparison between operands")
            return ("unk", "binary %s" % op)
        if k == "Index" or (k == "Call" and callee(e) in INDEX_FNS and len(e["args"]) == 2):
            ix = _as_index(e)
            r_, ch = F.field_chain(ix["e"])
            a = self.arr(r_) if ch == ["dimensions"] else None
            i = self.ev(ix["i"], depth + 1)
            if a and i[0] == "lenminus" and i[1] == a:
                return ("dimR", a, i[2])
            if a and i[0] == "unk" and "before the first dimension" in str(i[1]):
                return ("unk", "index before the first dimension")
            return ("unk", "index `%s`" % show(e)[:50])
        return ("unk", "expression `%s`" % show(e)[:50])


def r38_matmul_shapes(facts):
    """MATMUL-SHAPES: for operands of rank >= 2 and each transposition assignment, rows = A.dims[len - (ta ? 1 : 2)], cols = B.dims[len - (tb ? 2 : 1)], inner = A.dims[len - (ta ? 2 : 1)], the kernel receives (rows, cols, inner) and (operand 0, ta), (operand 1, tb) in this order, and the output dimensions end in [rows, cols]"""
    from .shape_rules import find_product_ctor
    c = Ctx("R38", facts, "matrix product: rows / cols / inner length are read from the right dimensions for every transposition")
    ctors = find_product_ctor(facts)
    c.floor("operation constructors taking two (array, transpose) pairs", len(ctors), 1)
    fl = facts.float or "f64"
    for b in ctors:
        name = b.get("name")
        where0 = "%s:%d" % (F.rel(b["file"]), b["sp"][0])
        nest = Nest(facts, b)
        ps = [p for p in facts.params(b) if p.get("pat")]
        pairs = [p["pat"].get("v") for p in ps if p["ty"] == "(&%s, bool)" % ARRAY]
        if len(pairs) != 2:
            c.unk("shapes:%s" % name, where0, "pair parameters not bound by plain names")
            continue
        names, flagv = {}, {}
        for v, (src, idx) in nest.tuple_src.items():
            if src in pairs:
                which = "A" if src == pairs[0] else "B"
                if idx == 0:
                    names[v] = which
                else:
                    flagv[which] = v
        if set(names.values()) != {"A", "B"} or set(flagv) != {"A", "B"}:
            c.unk("shapes:%s" % name, where0, "the (array, transpose) pairs are not destructured in a recognised form")
            continue
        lets = {v: init for v, (init, body) in nest.lets.items()}
        # the kernel call: callee with the (values, triple, pair, pair) signature, inside a nested closure
        kcalls = []
        for nb in nest.bodies:
            for n in walk(facts.root(nb)):
                if n.get("k") == "Call" and (n.get("callee") or {}).get("resolved_local"):
                    kb = facts.body((n.get("callee") or {}).get("resolved"))
                    if kb is not None and (kb.get("inputs") or [])[:1] == ["&mut [%s]" % fl] and "(usize, usize, usize)" in (kb.get("inputs") or []):
                        kcalls.append((n, nb))
        if len(kcalls) != 1:
            c.unk("shapes:%s:kernel-call" % name, where0, "expected one call of the product kernel, found %d" % len(kcalls))
            continue
        kc, kbody = kcalls[0]
        triple = strip(kc["args"][1])
        pa, pb = strip(kc["args"][2]), strip(kc["args"][3])
        if triple.get("k") != "Tuple" or len(triple["fields"]) != 3 or pa.get("k") != "Tuple" or pb.get("k") != "Tuple":
            c.unk("shapes:%s:kernel-call" % name, F.loc(kbody, kc), "kernel arguments are not tuple literals")
            continue
        # which operand slice goes where: arrays[i] with i = position in the vector given to sliced_op
        from .engine_rules import SLICED_OP
        from .repr_rules import vec_literal_elems
        order = None
        for n in walk(facts.root(b)):
            if n.get("k") == "Call" and resolved(n) == SLICED_OP:
                els = vec_literal_elems(n["args"][0])
                if els:
                    order = [names.get(F.var_of(x)) for x in els]
        # the target dimensions the operands are broadcast to (and the result's leading dimensions come from): the pairwise
        # broadcast of both operands' leading dimensions, not one operand's
        for n in walk(facts.root(b)):
            if n.get("k") == "Call" and resolved(n) == SLICED_OP and len(n["args"]) >= 7:
                chooser = {}
                other = None
                for ra, rb in itertools.product((1, 2, 3, 4), repeat=2):
                    de0 = DimEval(facts, lets, {flagv["A"]: False, flagv["B"]: False}, names, ranks={"A": ra, "B": rb})
                    v = de0.ev(n["args"][3])
                    if v[0] == "dimsof":
                        chooser[(ra, rb)] = v[1]
                    else:
                        other = v
                inst = "leading-dims:%s" % name
                if other is not None:
                    # part of the choice is not about ranks: evaluate it both ways
                    alt = {}
                    seen_cond = None
                    for assume in (True, False):
                        ch2 = {}
                        for ra, rb in itertools.product((1, 2, 3, 4), repeat=2):
                            de2_ = DimEval(facts, lets, {flagv["A"]: False, flagv["B"]: False}, names, ranks={"A": ra, "B": rb}, unknown_as=assume)
                            v2 = de2_.ev(n["args"][3])
                            if v2[0] == "dimsof":
                                ch2[(ra, rb)] = v2[1]
                            if de2_.assumed:
                                seen_cond = seen_cond or de2_.assumed[0]
                        alt[assume] = ch2
                    if seen_cond and len(alt[True]) == 16 and len(alt[False]) == 16 and alt[True] != alt[False]:
                        c.bad(inst + "#value-dependent", F.loc(b, n), "which operand's dimensions the operands are broadcast to depends on `%s`, not only on the ranks: for some operands of equal rank the "
                              "target comes from the one with the unit batch and compatible shapes are refused" % seen_cond)
                        continue
                if other is not None or not chooser:
                    tgt = strip(n["args"][3])
                    hops = 0
                    while isinstance(tgt, dict) and tgt.get("k") in ("VarRef", "UpvarRef") and tgt["v"] in lets and hops < 4:
                        tgt = peel(lets[tgt["v"]])
                        hops += 1
                    calls_bcast = any(x.get("k") == "Call" and (x.get("callee") or {}).get("resolved_local") and (facts.body(resolved(x)) or {}).get("inputs") == ["&[usize]", "&[usize]"]
                                      for x in walk(tgt)) if isinstance(tgt, dict) else False
                    if calls_bcast:
                        c.ok(inst, F.loc(b, n), "the operands are broadcast to dimensions computed by the broadcast-shape function")
                    else:
                        c.unk(inst, F.loc(b, n), "how the broadcast target dimensions of the product are obtained is not recognised (%s)" % (other[1] if other and len(other) > 1 else "?"))
                else:
                    if all((x == "A") == (ra >= rb) for (ra, rb), x in chooser.items()):
                        how, tie = "the operand of higher rank, the left one on a tie", "A-on-tie"
                    elif all((x == "A") == (ra > rb) for (ra, rb), x in chooser.items()):
                        how, tie = "the operand of higher rank, the right one on a tie", "B-on-tie"
                    else:
                        how = "one operand chosen by rank (%s)" % "".join(chooser[k_] for k_ in sorted(chooser))
                        tie = "".join(chooser[k_] for k_ in sorted(chooser))
                    lose = "B" if tie == "A-on-tie" else "A"
                    c.bad(inst + "#" + tie, F.loc(b, n),
                          "the dimensions the operands are broadcast to (and the result's leading dimensions) are copied from %s instead of being the pairwise "
                          "broadcast of both operands' leading dimensions: a unit leading dimension of the chosen operand against a larger one of the other is refused "
                          "(\"unable to broadcast\") although the shapes are compatible, e.g. equal ranks with %s carrying the real batch" % (how, lose))
        # the listed rank-1 forms: a rank-1 operand next to a rank >= 2 one is a one-row matrix (the right one transposed: a column),
        # two untransposed rank-1 operands give their dot product
        forms = [((1, 2, False, False), (("int", 1), ("dimR", "B", 1), ("dimR", "A", 1))),
                 ((1, 2, False, True), (("int", 1), ("dimR", "B", 2), ("dimR", "A", 1))),
                 ((1, 3, False, False), (("int", 1), ("dimR", "B", 1), ("dimR", "A", 1))),
                 ((2, 1, False, True), (("dimR", "A", 2), ("int", 1), ("dimR", "A", 1))),
                 ((3, 1, False, True), (("dimR", "A", 2), ("int", 1), ("dimR", "A", 1))),
                 ((2, 1, True, True), (("dimR", "A", 1), ("int", 1), ("dimR", "A", 2))),
                 ((1, 1, False, False), (("int", 1), ("int", 1), ("dimR", "A", 1)))]
        for (ra, rb, ta, tb), want3 in forms:
            de1 = DimEval(facts, lets, {flagv["A"]: ta, flagv["B"]: tb}, names, ranks={"A": ra, "B": rb})
            inst = "shapes:%s:rank-1:%dx%d,ta=%s,tb=%s" % (name, ra, rb, "T" if ta else "F", "T" if tb else "F")
            got3 = [de1.ev(f_) for f_ in triple["fields"]]
            labels3 = ("rows", "cols", "inner length")
            bad3 = [(lab, g, w) for lab, g, w in zip(labels3, got3, want3) if g != w]
            if not bad3:
                c.ok(inst, F.loc(kbody, kc), "rows, cols and inner length of the rank-%d x rank-%d form are %s" % (ra, rb, ", ".join("%s" % (w,) for w in want3)))
            elif any(g[0] == "unk" and "before the first dimension" not in str(g[1:]) for _, g, _ in bad3):
                lab, g, w = [x for x in bad3 if x[1][0] == "unk"][0]
                c.unk(inst, F.loc(kbody, kc), "%s of the rank-%d x rank-%d form is outside the shape evaluator (%s)" % (lab, ra, rb, g[1] if len(g) > 1 else "?"))
            else:
                lab, g, w = bad3[0]
                c.bad(inst, F.loc(kbody, kc), "for a rank-%d left and a rank-%d right operand (ta=%s, tb=%s) the %s is %s; the documented form needs %s" % (
                    ra, rb, ta, tb, lab, "read before the operand's first dimension (a panic)" if g[0] == "unk" else "%s" % (g,), "%s" % (w,)))
        for ta, tb in itertools.product((False, True), repeat=2):
            tag = "shapes:%s:ta=%s,tb=%s" % (name, "T" if ta else "F", "T" if tb else "F")
            de = DimEval(facts, lets, {flagv["A"]: ta, flagv["B"]: tb}, names)
            want = [("dimR", "A", 1 if ta else 2), ("dimR", "B", 2 if tb else 1), ("dimR", "A", 2 if ta else 1)]
            labels = ["rows", "cols", "inner length"]
            for fld, w, lab in zip(triple["fields"], want, labels):
                got = de.ev(fld)
                inst = "%s:%s" % (tag, lab.split()[0])
                if got == w:
                    c.ok(inst, F.loc(kbody, kc), "%s = %s.dimensions[len - %d]" % (lab, w[1], w[2]))
                elif got[0] == "dimR":
                    c.bad(inst, F.loc(kbody, kc), "%s handed to the kernel is %s.dimensions[len - %d] but op(A) x op(B) needs %s.dimensions[len - %d]" % (lab, got[1], got[2], w[1], w[2]))
                else:
                    c.unk(inst, F.loc(kbody, kc), "%s is outside the shape evaluator (%s)" % (lab, got[1] if len(got) > 1 else got[0]))
            # operand / flag pairing
            for tup, which in ((pa, "A"), (pb, "B")):
                inst = "%s:pair%s" % (tag, which)
                sl = peel(tup["fields"][0])
                i = lit_value(sl["i"]) if isinstance(sl, dict) and sl.get("k") == "Index" else None
                fv = de.ev(tup["fields"][1])
                if order is None or i is None or not (0 <= i < len(order)):
                    c.unk(inst, F.loc(kbody, kc), "operand slice of %s not recognised" % which)
                elif order[i] != which:
                    c.bad(inst, F.loc(kbody, kc), "the kernel's operand %s is slice %d, which is %s" % (which, i, order[i]))
                elif fv != ("bool", ta if which == "A" else tb):
                    c.bad(inst, F.loc(kbody, kc), "the kernel's operand %s is paired with the wrong transpose flag" % which) if fv[0] == "bool" else \
                        c.unk(inst, F.loc(kbody, kc), "transpose flag of %s outside the evaluator" % which)
                else:
                    c.ok(inst, F.loc(kbody, kc), "operand %s = slice %d with its own flag" % (which, i))
            # the compatibility assertion: inner length of A against B.dims[len - (tb ? 1 : 2)]
            from .config_rules import _panics
            found = None
            for n in walk(facts.root(b)):
                if n.get("k") == "If" and n.get("else") is None and _panics(n["then"]):
                    for x in walk(n["cond"]):
                        if x.get("k") == "Binary" and x.get("op") in ("Le", "Lt", "Ge", "Gt") and found is None:
                            l, r = de.ev(x["l"]), de.ev(x["r"])
                            if {l, r} == {("dimR", "A", 2 if ta else 1), ("dimR", "B", 1 if tb else 2)}:
                                found = ("order", x["op"], n)
                        if x.get("k") == "Binary" and x.get("op") == "Eq":
                            l, r = de.ev(x["l"]), de.ev(x["r"])
                            if {l, r} == {("dimR", "A", 2 if ta else 1), ("dimR", "B", 1 if tb else 2)}:
                                found = True
                            elif l[0] == "dimR" and r[0] == "dimR" and {l[1], r[1]} == {"A", "B"} and found is None:
                                found = (l, r, n)
            inst = "%s:compatible" % tag
            if found is True:
                c.ok(inst, where0, "refuses unless A's inner dimension equals B.dimensions[len - %d]" % (1 if tb else 2))
            elif isinstance(found, tuple) and found[0] == "order":
                c.bad(inst, F.loc(b, found[2]), "the compatibility assertion relates the inner dimensions of op(A) and op(B) with `%s` instead of equality: operands whose inner dimensions differ in one direction are multiplied instead of refused"
                      % {"Le": "<=", "Lt": "<", "Ge": ">=", "Gt": ">"}[found[1]])
            elif found is None:
                c.unk(inst, where0, "no assertion comparing the inner dimensions of A and B recognised")
            else:
                c.bad(inst, F.loc(b, found[2]), "the compatibility assertion compares %s.dimensions[len - %d] with %s.dimensions[len - %d]: not the inner dimensions of op(A) and op(B)"
                      % (found[0][1], found[0][2], found[1][1], found[1][2]))
            # ... and it is reached, and not escaped, for every pair of ranks at which both inner dimensions exist
            ka, kb = (2 if ta else 1), (1 if tb else 2)
            asserts = [(n, ctx) for n, ctx in F.walk_ctx(facts.root(b)) if n.get("k") == "If" and n.get("else") is None and _panics(n["then"])]
            inst = "%s:refuses-every-rank" % tag
            passed, undecided = [], None
            if found is not True:
                c.unk(inst, where0, "the compatibility assertion is not in this body in a recognised form (moved into a helper?): its reach is not judged")
                continue
            for ra, rb in itertools.product((1, 2, 3, 4), repeat=2):
                if ra < ka or rb < kb:
                    continue        # one operand has no such dimension: the listed rank-1 forms, nothing to compare
                want_pair = {("dimR", "A", ka), ("dimR", "B", kb)}
                de2 = DimEval(facts, lets, {flagv["A"]: ta, flagv["B"]: tb}, names, ranks={"A": ra, "B": rb},
                              eq=lambda l, r: False if {l, r} == want_pair else None)
                refused = False
                for n, ctx in asserts:
                    vals = []
                    for cond, truth in F.path_facts(ctx):
                        v = de2.ev(cond)
                        vals.append(None if v[0] != "bool" else (v[1] == truth))
                    if any(v is False for v in vals):
                        continue
                    cv = de2.ev(n["cond"])
                    if cv[0] == "bool" and not cv[1]:
                        continue
                    if cv[0] != "bool" or any(v is None for v in vals):
                        # an assertion this evaluation cannot decide: only matters if no other one refuses
                        if any(x.get("k") == "Binary" and x.get("op") in ("Eq", "Ne") for x in walk(n["cond"])) and \
                                any(de2.ev(x["l"])[0] == "dimR" for x in walk(n["cond"]) if x.get("k") == "Binary" and x.get("op") in ("Eq", "Ne")):
                            undecided = undecided or (ra, rb, cv[1] if cv[0] != "bool" else "path condition outside the evaluator")
                        continue
                    refused = True
                    break
                if not refused:
                    passed.append((ra, rb))
            if undecided is not None and passed:
                c.unk(inst, where0, "whether mismatching inner dimensions are refused at ranks %s is outside the evaluator (%s)" % (undecided[:2], undecided[2]))
            elif passed:
                c.bad(inst, where0, "A of rank %d and B of rank %d (%s) both have an inner dimension, A.dimensions[len - %d] and B.dimensions[len - %d], yet no assertion "
                      "refuses them when these differ: the product of incompatible operands is computed instead of refused%s"
                      % (passed[0][0], passed[0][1], "ta=%s, tb=%s" % (ta, tb), ka, kb, "" if len(passed) == 1 else " (also ranks %s)" % ", ".join("%dx%d" % p for p in passed[1:4])))
            else:
                c.ok(inst, where0, "for ranks 1..4 x 1..4 with both inner dimensions present, a mismatch reaches a failing assertion")
    return c


# ====================================================================================== roll is the adjoint of unroll

def _rename(fr, mapping):
    """substitute atoms of a polynomial fraction (denominator 1) by other polynomial fractions"""
    if fr.d != Poly.const(1):
        raise Abstain("quotient in an index")
    out = Frac(0)
    for m, c in fr.n.t.items():
        term = Frac(c)
        for a, e in m:
            from .symalg import lf_const
            ec = lf_const(e)
            if ec is None or ec.denominator != 1 or ec < 0:
                raise Abstain("non-polynomial exponent")
            base = mapping.get(a, Frac(Poly.atom(a)))
            for _ in range(int(ec)):
                term = term * base
        out = out + term
    return out


def _max_plus_one(fr, ranges):
    """max value + 1 of a polynomial with non-negative coefficients over variables 0 <= v < N_v (ranges: atom -> extent Frac)"""
    if fr.d != Poly.const(1):
        return None
    out = Frac(1)
    for m, c in fr.n.t.items():
        if c < 0:
            return None
        term = Frac(c)
        bounded = False
        for a, e in m:
            from .symalg import lf_const
            ec = lf_const(e)
            if ec != 1 and a in ranges:
                return None
            if a in ranges and not bounded:
                term = term * (ranges[a] - Frac(1))
                bounded = True
            elif a in ranges:
                return None
            else:
                term = term * Frac(Poly.atom(a))
        if not bounded:
            return None
        out = out + term
    return out


def _divmod(p, d, ranges):
    """(quotient, remainder) of polynomial p by polynomial d when p = q*d + r with 0 <= r < d provable from the ranges"""
    if p.d != Poly.const(1) or d.d != Poly.const(1):
        raise Abstain("division of quotients")
    ds = d.n.single()
    q = Frac(0)
    r = Frac(0)
    for m, c in p.n.t.items():
        term = Frac(Poly({m: c}))
        # is the term a multiple of d?  try exact monomial division
        placed = False
        if ds is not None:
            dc, dm = ds
            md = dict(m)
            ok = True
            for a, e in dm:
                from .symalg import lf_const, lf_add, lf_scale
                have = md.get(a)
                if have is None:
                    ok = False
                    break
                rest = lf_add(have, lf_scale(e, -1))
                rc = lf_const(rest)
                if rc is None or rc < 0:
                    ok = False
                    break
                if rest:
                    md[a] = rest
                else:
                    del md[a]
            if ok and (c / dc).denominator == 1:
                q = q + Frac(Poly({tuple(sorted(md.items())): c / dc}))
                placed = True
        if not placed:
            r = r + term
    if r.is_zero():
        return q, r
    mp = _max_plus_one(r, ranges)
    if mp is None or not (mp.equals(d)):
        raise Abstain("cannot show that the remainder `%r` is below the divisor `%r`" % (r, d))
    return q, r


class IdxEvalDM(IdxEval):
    """IdxEval with loop variables substituted by polynomials and `/`, `%` simplified under the variables' ranges"""

    def __init__(self, nest, flags, subst, ranges):
        super().__init__(nest, flags)
        self.subst = subst      # loop var -> Frac
        self.ranges = ranges    # atom -> extent Frac

    def poly(self, e, depth=0):
        e0 = strip(e)
        if isinstance(e0, dict) and e0.get("k") in ("VarRef", "UpvarRef") and e0["v"] in self.subst:
            return self.subst[e0["v"]]
        if isinstance(e0, dict) and e0.get("k") == "Binary" and e0.get("op") in ("Div", "Rem"):
            a, b = self.poly(e0["l"], depth + 1), self.poly(e0["r"], depth + 1)
            q, r = _divmod(a, b, self.ranges)
            return q if e0["op"] == "Div" else r
        return super().poly(e, depth)


def _transpose_backward(facts, c):
    """the derivative closure of the output transposition applies the inverse permutation: it writes where the forward
    loop read and reads where the forward loop wrote"""
    fns = [b for b in facts.fns() if b.get("impl_self") == ARRAY and b.get("impl_trait_def") is None
           and (b.get("inputs") or []) == ["&" + ARRAY, "(usize, usize)"] and b.get("output") == ARRAY]
    for b in fns:
        name = b.get("name")
        where0 = "%s:%d" % (F.rel(b["file"]), b["sp"][0])
        nest = Nest(facts, b)
        ev = IdxEval(nest, {})

        def pair(body_filter):
            lv = [v for v, (end, _, body) in nest.loopvars.items() if body_filter(body)]
            outer = [v for v in lv if not nest.parent_loop.get(v)]
            inner = [v for v in lv if nest.parent_loop.get(v)]
            return (outer[0], inner[0]) if len(outer) == 1 and len(inner) == 1 else None
        fwd = pair(lambda body: body is b)
        closures = [nb for nb in nest.bodies if nb is not b and F.is_backward_closure(nb)]
        if fwd is None or len(closures) != 1:
            c.unk("transpose-backward:%s" % name, where0, "forward loop nest or derivative closure not recognised")
            continue
        cb = closures[0]
        bwd = pair(lambda body: body is cb)
        if bwd is None:
            c.unk("transpose-backward:%s" % name, F.loc(cb, facts.root(cb)), "the derivative closure is not a nest of two `0..n` loops")
            continue
        try:
            if not (ev.extent(fwd[0]).equals(ev.extent(bwd[0])) and ev.extent(fwd[1]).equals(ev.extent(bwd[1]))):
                c.unk("transpose-backward:%s" % name, F.loc(cb, facts.root(cb)), "the derivative's loops do not run over the same extents as the forward loops")
                continue
            ren = {"i:" + bwd[0]: Frac(Poly.atom("i:" + fwd[0])), "i:" + bwd[1]: Frac(Poly.atom("i:" + fwd[1]))}
            f_load = f_store = b_load = b_store = None
            for kind, idx, node, body in _accesses(nest):
                if body is b:
                    if kind == "load":
                        f_load = ev.poly(idx["i"])
                    else:
                        f_store = ev.poly(idx["i"])
                elif body is cb:
                    if kind == "load":
                        b_load = (_rename(ev.poly(idx["i"]), ren), node)
                    else:
                        b_store = (_rename(ev.poly(idx["i"]), ren), node, kind)
            if None in (f_load, f_store, b_load, b_store):
                c.unk("transpose-backward:%s" % name, F.loc(cb, facts.root(cb)), "loads / stores of the forward loop or of the derivative closure not recognised")
                continue
            _eq(c, "transpose-backward:%s:destination" % name, F.loc(cb, b_store[1]), b_store[0], f_load, "position the delta element is written to (= the position the forward pass read)")
            _eq(c, "transpose-backward:%s:source" % name, F.loc(cb, b_load[1]), b_load[0], f_store, "delta element read (= the position the forward pass wrote)")
        except (Abstain, Unsupported) as ex:
            c.unk("transpose-backward:%s" % name, where0, "outside the index algebra: %s" % ex)


def r39_roll_adjoint_of_unroll(facts):
    """ROLL-ADJOINT: the routine used as the derivative of im2col reads unrolled element (row r*cols+c, column (k*frows+m)*fcols+n) and adds it to image element [k, r*sr+m, c*sc+n] - the same index pairs as im2col, transposed (div / mod decoding simplified symbolically under the loop ranges)"""
    c = Ctx("R39", facts, "roll_blocks (adjoint of im2col) uses exactly im2col's index pairs, transposed")
    from .inline import kernel_view
    facts = kernel_view(facts)
    unrolls = [b for b in facts.fns() if b.get("impl_self") == ARRAY and b.get("impl_trait_def") is None
               and (b.get("inputs") or []) == ["&" + ARRAY, "(usize, usize)", "(usize, usize)"]]
    rolls = [b for b in facts.fns() if b.get("impl_self") == ARRAY and b.get("impl_trait_def") is None
             and (b.get("inputs") or [])[:4] == ["&" + ARRAY, "(usize, usize, usize)", "(usize, usize)", "(usize, usize)"]
             and any(nb is not b and F.is_sliced_closure(nb, facts) for nb in facts.nested(b))]
    c.count("adjoint routines (unrolled, image triple, stride pair, filter pair, ..)", len(rolls))
    if len(unrolls) != 1 or not rolls:
        c.unk("roll:routines", "-", "expected one im2col routine and at least one adjoint routine with a sliced closure (found %d / %d)" % (len(unrolls), len(rolls)))
        return c
    _transpose_backward(facts, c)
    for b in rolls:
        name = b.get("name")
        where0 = "%s:%d" % (F.rel(b["file"]), b["sp"][0])
        nest = Nest(facts, b)
        ps = [p for p in facts.params(b) if p.get("pat")]
        pv = [p["pat"].get("v") for p in ps]
        comp = {}
        for v, (src, idx) in nest.tuple_src.items():
            if src in pv[1:4]:
                comp[(pv.index(src), idx)] = v
        need = [(1, 0), (1, 1), (1, 2), (2, 0), (2, 1), (3, 0), (3, 1)]
        if any(k not in comp for k in need):
            c.unk("roll:%s:params" % name, where0, "the dimension tuples are not destructured in a recognised form")
            continue
        # which pair is the stride: the one dividing in the window count
        ev0 = IdxEval(nest, {})
        count_var = None
        stride_pair = None
        for v, (init, body) in nest.lets.items():
            ca = _count_axis(nest, ev0, {"k": "VarRef", "v": v})
            if ca and ca[1] == 1:
                o = _origin_tuple(nest, ca[2])
                if o and o[0] in pv[2:4]:
                    count_var, stride_pair = v, pv.index(o[0])
        if count_var is None:
            c.unk("roll:%s:count" % name, where0, "the column window count `(cols - fcols) / sc + 1` is not computed in a recognised form")
            continue
        filter_pair = 5 - stride_pair
        A = lambda n_: Frac(Poly.atom(n_))
        role = {"n:" + comp[(1, 0)]: A("K"), "n:" + comp[(1, 1)]: A("R"), "n:" + comp[(1, 2)]: A("C"),
                "n:" + comp[(stride_pair, 0)]: A("sr"), "n:" + comp[(stride_pair, 1)]: A("sc"),
                "n:" + comp[(filter_pair, 0)]: A("Fr"), "n:" + comp[(filter_pair, 1)]: A("Fc"), "n:" + count_var: A("Cc")}
        # the two loops of the sliced closure: i over windows, j over one unrolled row
        loops = [(lv, info) for lv, info in nest.loopvars.items() if info[2] is not b]
        outer = [lv for lv, _ in loops if not nest.parent_loop.get(lv)]
        inner = [lv for lv, _ in loops if nest.parent_loop.get(lv)]
        if len(outer) != 1 or len(inner) != 1:
            c.unk("roll:%s:loops" % name, where0, "the closure is not a nest of two `0..n` loops (windows, positions in a window row)")
            continue
        try:
            jext = _rename(ev0.extent(inner[0]), role)
            if not jext.equals(A("Fr") * A("Fc") * A("K")):
                c.unk("roll:%s:loops" % name, where0, "the inner loop does not run over frows * fcols * depth positions (%r)" % jext)
                continue
            r, cc, k, m, n_ = A("r"), A("c"), A("k"), A("m"), A("n")
            subst = {outer[0]: r * A("Cc") + cc, inner[0]: (k * A("Fr") + m) * A("Fc") + n_}
            ranges = {"c": A("Cc"), "k": A("K"), "m": A("Fr"), "n": A("Fc")}

            class Ev(IdxEvalDM):
                def poly(self, e, depth=0):
                    return _rename(IdxEvalDM.poly(self, e, depth), role) if depth == 0 else IdxEvalDM.poly(self, e, depth)
            ev = IdxEvalDM(nest, {}, subst, ranges)
            # atoms must be in role space before division: wrap atom creation
            orig_atom = ev.atom
            ev.atom = lambda nm: role.get(nm, orig_atom(nm))
            want_unrolled = (r * A("Cc") + cc) * (A("K") * A("Fr") * A("Fc")) + (k * A("Fr") + m) * A("Fc") + n_
            want_image = k * A("R") * A("C") + (r * A("sr") + m) * A("C") + (cc * A("sc") + n_)
            seen = set()
            for kind, idx, node, body in _accesses(nest):
                if body is b:
                    continue
                got = ev.poly(idx["i"])
                cps = [p for p in facts.params(body) if p.get("pat")]
                outv = cps[0]["pat"].get("v") if cps and cps[0]["pat"].get("k") == "Binding" else None
                if kind == "load" and _base(idx)[0] == outv:
                    # `out[i] = out[i] + ..`: reading the destination itself
                    _eq(c, "roll:%s:destination#reread" % name, F.loc(body, node), got, want_image, "image element re-read for accumulation")
                    continue
                if kind == "load":
                    seen.add("load")
                    _eq(c, "roll:%s:source" % name, F.loc(body, node), got, want_unrolled, "unrolled element read for window (r, c), depth k, filter position (m, n)")
                else:
                    seen.add("store")
                    _eq(c, "roll:%s:destination#%s" % (name, kind), F.loc(body, node), got, want_image, "image element [k, r*sr+m, c*sc+n] it is delivered to")
            if seen != {"load", "store"}:
                c.unk("roll:%s:coverage" % name, where0, "load / store of the adjoint closure not recognised (%s)" % sorted(seen))
        except (Abstain, Unsupported) as ex:
            c.unk("roll:%s" % name, where0, "outside the index algebra: %s" % ex)
    return c


# ====================================================================================== multi-index -> flat index

class _Continue(Exception):
    pass


class _Break(Exception):
    pass


class _Ret(Exception):
    def __init__(self, v):
        self.v = v


class _Panic(Exception):
    pass


class ListEval:
    """sequential interpreter for small iterator pipelines over lists of symbolic usize values of KNOWN length"""

    def __init__(self, facts):
        self.facts = facts
        self.steps = 0

    def run(self, b, args):
        env = {}
        ps = [p for p in self.facts.params(b) if p.get("pat")]
        for p, a in zip(ps, args):
            self.bind(p["pat"], a, env)
        try:
            return self.ev(self.facts.root(b), env)
        except _Ret as r:
            return r.v

    def bind(self, pat, val, env):
        k = pat.get("k")
        if k == "Binding":
            env[pat["v"]] = val
            if isinstance(pat.get("sub"), dict):
                self.bind(pat["sub"], val, env)
        elif k in ("Deref", "DerefPattern"):
            self.bind(pat["sub"], val, env)
        elif k == "Leaf":
            if val[0] != "tup":
                raise Abstain("tuple pattern on %s" % val[0])
            for s in pat["subs"]:
                self.bind(s["pat"], val[1][s["idx"]], env)
        elif k in ("Wild", "Missing"):
            return
        else:
            raise Abstain("pattern %s" % k)

    def matches(self, pat, val, env):
        k = pat.get("k")
        if k in ("Wild", "Missing"):
            return True
        if k == "Binding":
            env[pat["v"]] = val
            if isinstance(pat.get("sub"), dict):
                return self.matches(pat["sub"], val, env)
            return True
        if k in ("Deref", "DerefPattern"):
            return self.matches(pat["sub"], val, env)
        if k == "Leaf":
            if val[0] != "tup":
                raise Abstain("tuple pattern on %s" % val[0])
            return all(self.matches(s_["pat"], val[1][s_["idx"]], env) for s_ in pat["subs"])
        if k in ("Slice", "Array"):
            if val[0] not in ("lst", "it"):
                raise Abstain("slice pattern on %s" % val[0])
            pre, suf = pat.get("prefix", []) or [], pat.get("suffix", []) or []
            items = val[1]
            if isinstance(pat.get("slice"), dict):
                if len(items) < len(pre) + len(suf):
                    return False
                mid = items[len(pre):len(items) - len(suf)]
                if not self.matches(pat["slice"], ("lst", mid), env):
                    return False
            elif len(items) != len(pre) + len(suf):
                return False
            for q, x in zip(pre, items[:len(pre)]):
                if not self.matches(q, x, env):
                    return False
            for q, x in zip(suf, items[len(items) - len(suf):] if suf else []):
                if not self.matches(q, x, env):
                    return False
            return True
        if k == "Constant":
            cv = self.const(val) if val[0] == "s" else None
            want = pat.get("value")
            try:
                wv = int(str(want).replace("usize", "").replace("_", ""))
            except (TypeError, ValueError):
                raise Abstain("constant pattern %s" % want)
            if cv is None:
                raise Abstain("constant pattern against a symbol")
            return cv == wv
        if k == "Variant" and pat.get("adt") == "core::option::Option":
            if val[0] != "opt":
                raise Abstain("option pattern on %s" % val[0])
            if pat.get("variant") == "Some":
                return val[1] is not None and all(self.matches(s_["pat"], val[1], env) for s_ in pat.get("subs", []))
            return val[1] is None
        raise Abstain("pattern %s" % k)

    def num(self, v):
        if v[0] == "s":
            return v[1]
        raise Abstain("expected a number, found %s" % v[0])

    def const(self, v):
        fr = self.num(v)
        if fr.d == Poly.const(1):
            s_ = fr.n.single()
            if fr.n.is_zero():
                return 0
            if s_ is not None and s_[1] == () and s_[0].denominator == 1:
                return int(s_[0])
        return None

    def truth(self, v):
        if v[0] == "b":
            return v[1]
        raise Abstain("condition is not decided")

    def ev(self, e, env):
        self.steps += 1
        if self.steps > 20000:
            raise Abstain("evaluation too long")
        e = strip(e)
        if not isinstance(e, dict):
            raise Abstain("no expression")
        k = e.get("k")
        if k == "Literal":
            lv = lit_value(e)
            if isinstance(lv, bool):
                return ("b", lv)
            if isinstance(lv, int):
                return ("s", Frac(lv))
            raise Abstain("literal")
        if k in ("VarRef", "UpvarRef"):
            if e["v"] not in env:
                raise Abstain("unbound variable %s" % e["v"].split("#")[0])
            return env[e["v"]]
        if k in ("Borrow", "Deref", "Use", "Cast", "RawBorrow"):
            return self.ev(e["e"], env)
        if k == "Block":
            env2 = dict(env)
            for s in e["stmts"]:
                if s["s"] == "let":
                    if s.get("init") is None:
                        raise Abstain("let without initialiser")
                    self.bind(s["pat"], self.ev(s["init"], env2), env2)
                else:
                    self.ev(s["e"], env2)
            out = self.ev(e["e"], env2) if e.get("e") is not None else ("unit",)
            for v in env:                      # assignments to outer variables survive the block
                if v in env2:
                    env[v] = env2[v]
            return out
        if k == "Tuple":
            return ("tup", [self.ev(x, env) for x in e["fields"]])
        if k == "Unary" and e.get("op") == "Not":
            return ("b", not self.truth(self.ev(e["e"], env)))
        if k == "LogicalOp":
            l = self.truth(self.ev(e["l"], env))
            if e["op"] == "And":
                return ("b", l and self.truth(self.ev(e["r"], env)))
            return ("b", l or self.truth(self.ev(e["r"], env)))
        if k == "Binary":
            l, r = self.ev(e["l"], env), self.ev(e["r"], env)
            op = e["op"]
            if op in ("Add", "Sub", "Mul"):
                a, b = self.num(l), self.num(r)
                return ("s", a + b if op == "Add" else (a - b if op == "Sub" else a * b))
            if op in ("Eq", "Ne", "Lt", "Le", "Gt", "Ge"):
                a, b = self.num(l), self.num(r)
                ca, cb = self.const(l), self.const(r)
                if ca is not None and cb is not None:
                    return ("b", {"Eq": ca == cb, "Ne": ca != cb, "Lt": ca < cb, "Le": ca <= cb, "Gt": ca > cb, "Ge": ca >= cb}[op])
                # a generic (non-unit) dimension symbol against the constant 1
                sym, cst = (a, cb) if cb is not None else (b, ca)
                if cst == 1 and op in ("Eq", "Ne") and sym.d == Poly.const(1) and len(sym.n.t) == 1 and all(x.startswith("d") for x in sym.atoms()):
                    return ("b", op == "Ne")
                raise Abstain("comparison `%s` not decided" % show(e)[:40])
            raise Abstain("binary %s" % op)
        if k == "If":
            cond = strip(e["cond"])
            if cond.get("k") == "Let":
                raise Abstain("if-let")
            if self.truth(self.ev(cond, env)):
                return self.ev(e["then"], env)
            return self.ev(e["else"], env) if e.get("else") is not None else ("unit",)
        if k in ("Assign", "AssignOp"):
            v = F.var_of(e["l"])
            if not v or strip(e["l"]).get("k") not in ("VarRef", "UpvarRef", "Deref"):
                raise Abstain("assignment to a place that is not a variable")
            r = self.ev(e["r"], env)
            if k == "Assign":
                env[v] = r
            else:
                op = str(e.get("op")).replace("Assign", "")
                a, b = self.num(env[v]), self.num(r)
                env[v] = ("s", a + b if op == "Add" else (a - b if op == "Sub" else (a * b if op == "Mul" else None)))
                if env[v][1] is None:
                    raise Abstain("compound assignment %s" % op)
            return ("unit",)
        if k == "Continue":
            raise _Continue()
        if k == "Break":
            raise _Break()
        if k == "Return":
            raise _Ret(self.ev(e["e"], env) if e.get("e") is not None else ("unit",))
        if k == "Closure":
            return ("clo", e["closure"], env)
        if k == "Index":
            base, i = self.ev(e["e"], env), self.ev(e["i"], env)
            if base[0] == "vals":
                return ("elem", self.num(i))
            ci = self.const(i) if i[0] == "s" else None
            if base[0] in ("lst", "it") and ci is not None and 0 <= ci < len(base[1]):
                return base[1][ci]
            raise Abstain("index")
        if k == "Field":
            base = self.ev(e["e"], env)
            if base[0] == "obj" and e.get("name") in base[1]:
                return base[1][e["name"]]
            if base[0] == "tup" and e.get("idx") is not None and e["idx"] < len(base[1]):
                return base[1][e["idx"]]
            raise Abstain("field %s of %s" % (e.get("name"), base[0]))
        if k == "Match" and not str(e.get("source", "")).startswith("ForLoopDesugar"):
            sv = self.ev(e["scrutinee"], env)
            for a in e["arms"]:
                env2 = dict(env)
                m = self.matches(a["pat"], sv, env2)
                if m and a.get("guard") is not None:
                    m = self.truth(self.ev(a["guard"], env2))
                if m:
                    out = self.ev(a["body"], env2)
                    for v in env:
                        if v in env2:
                            env[v] = env2[v]
                    return out
            raise Abstain("no match arm applies")
        fl = F.for_loop_parts(e)
        if fl:
            it, pat, body, _ = fl
            src = self.ev(it, env)
            if src[0] == "range":
                items = [("s", Frac(i)) for i in range(src[1], src[2])]
            elif src[0] in ("it", "lst"):
                items = list(src[1])
            else:
                raise Abstain("loop over %s" % src[0])
            for x in items:
                env2 = dict(env)
                self.bind(pat, x, env2)
                try:
                    self.ev(body, env2)
                except _Continue:
                    pass
                except _Break:
                    for v in env:
                        if v in env2:
                            env[v] = env2[v]
                    break
                for v in env:
                    if v in env2:
                        env[v] = env2[v]
            return ("unit",)
        if k == "Adt" and e.get("adt") == RANGE:
            f_ = {x["name"]: self.ev(x["e"], env) for x in e["fields"]}
            a, b = self.const(f_["start"]), self.const(f_["end"])
            if a is None or b is None:
                raise Abstain("symbolic range")
            return ("range", a, b)
        if k == "Call":
            return self.call(e, env)
        raise Abstain("expression kind %s" % k)

    def apply(self, f, args):
        if f[0] != "clo":
            raise Abstain("call of %s" % f[0])
        cb = self.facts.body(f[1])
        env2 = dict(f[2])
        ps = [p for p in self.facts.params(cb) if p.get("pat")]
        for p, a in zip(ps, args):
            self.bind(p["pat"], a, env2)
        try:
            return self.ev(self.facts.root(cb), env2)
        except _Ret as r:
            return r.v

    def call(self, e, env):
        c = callee(e) or ""
        args = e["args"]
        short = c.rsplit("::", 1)[-1]
        if c in ("core::slice::<impl [T]>::iter", "core::iter::traits::collect::IntoIterator::into_iter", IT_ + "copied", IT_ + "cloned",
                 IT_ + "by_ref", "core::ops::deref::Deref::deref", "alloc::slice::<impl [T]>::to_vec", IT_ + "collect", "core::clone::Clone::clone",
                 "alloc::vec::Vec::<T, A>::as_slice", "core::convert::AsRef::as_ref", "core::borrow::Borrow::borrow"):
            v = self.ev(args[0], env)
            if v[0] in ("lst", "it"):
                return ("it", list(v[1]))
            if v[0] == "range":
                return ("it", [("s", Frac(i)) for i in range(v[1], v[2])])
            return v
        if c in ("core::slice::<impl [T]>::len", "alloc::vec::Vec::<T, A>::len", IT_ + "count", "core::iter::traits::exact_size::ExactSizeIterator::len"):
            v = self.ev(args[0], env)
            if v[0] in ("lst", "it"):
                return ("s", Frac(len(v[1])))
            raise Abstain("len of %s" % v[0])
        if c == IT_ + "next":
            target = peel(args[0])
            v = self.ev(args[0], env)
            if v[0] != "it":
                raise Abstain("next on %s" % v[0])
            if not v[1]:
                return ("opt", None)
            head, rest = v[1][0], v[1][1:]
            vn = F.var_of(target)
            if vn and vn in env:
                env[vn] = ("it", rest)
            return ("opt", head)
        if c in ("core::option::Option::<T>::unwrap", "core::option::Option::<T>::expect"):
            v = self.ev(args[0], env)
            if v[0] == "opt" and v[1] is not None:
                return v[1]
            raise Abstain("unwrap of an absent value")
        if c.startswith(IT_) and short in ("skip", "take") and len(args) == 2:
            v = self.ev(args[0], env)
            n = self.const(self.ev(args[1], env))
            if v[0] != "it" or n is None or n < 0:
                raise Abstain("%s with a symbolic count" % short)
            return ("it", v[1][n:] if short == "skip" else v[1][:n])
        if c == IT_ + "rev":
            v = self.ev(args[0], env)
            return ("it", list(reversed(v[1]))) if v[0] == "it" else (_ for _ in ()).throw(Abstain("rev on %s" % v[0]))
        if c == IT_ + "enumerate":
            v = self.ev(args[0], env)
            if v[0] != "it":
                raise Abstain("enumerate on %s" % v[0])
            return ("it", [("tup", [("s", Frac(i)), x]) for i, x in enumerate(v[1])])
        if c == IT_ + "zip":
            a, b = self.ev(args[0], env), self.ev(args[1], env)
            if a[0] != "it" or b[0] != "it":
                raise Abstain("zip of %s and %s" % (a[0], b[0]))
            return ("it", [("tup", [x, y]) for x, y in zip(a[1], b[1])])
        if c == IT_ + "filter":
            v, f = self.ev(args[0], env), self.ev(args[1], env)
            if v[0] != "it":
                raise Abstain("filter on %s" % v[0])
            return ("it", [x for x in v[1] if self.truth(self.apply(f, [x]))])
        if c == IT_ + "map":
            v, f = self.ev(args[0], env), self.ev(args[1], env)
            if v[0] != "it":
                raise Abstain("map on %s" % v[0])
            return ("it", [self.apply(f, [x]) for x in v[1]])
        if c == IT_ + "fold":
            v, acc, f = self.ev(args[0], env), self.ev(args[1], env), self.ev(args[2], env)
            if v[0] != "it":
                raise Abstain("fold on %s" % v[0])
            for x in v[1]:
                acc = self.apply(f, [acc, x])
            return acc
        if c in (IT_ + "sum", IT_ + "product"):
            v = self.ev(args[0], env)
            if v[0] != "it":
                raise Abstain("%s on %s" % (short, v[0]))
            out = Frac(0) if short == "sum" else Frac(1)
            for x in v[1]:
                out = out + self.num(x) if short == "sum" else out * self.num(x)
            return ("s", out)
        if c in ("core::ops::arith::Add::add", "core::ops::arith::Sub::sub", "core::ops::arith::Mul::mul") and len(args) == 2:
            a, b = self.num(self.ev(args[0], env)), self.num(self.ev(args[1], env))
            return ("s", a + b if short == "add" else (a - b if short == "sub" else a * b))
        if c in ("core::cmp::PartialEq::eq", "core::cmp::PartialEq::ne") and len(args) == 2:
            fake = {"k": "Binary", "op": "Eq" if short == "eq" else "Ne", "l": args[0], "r": args[1]}
            return self.ev(fake, env)
        if c in INDEX_FNS and len(args) == 2:
            base, i = self.ev(args[0], env), self.ev(args[1], env)
            if base[0] == "vals":
                return ("elem", self.num(i))
            ci = self.const(i) if i[0] == "s" else None
            if base[0] in ("lst", "it") and ci is not None and 0 <= ci < len(base[1]):
                return base[1][ci]
            raise Abstain("index")
        if c.endswith("saturating_sub") and len(args) == 2:
            a, b = self.const(self.ev(args[0], env)), self.const(self.ev(args[1], env))
            if a is None or b is None:
                raise Abstain("saturating_sub of symbols")
            return ("s", Frac(max(a - b, 0)))
        if c.startswith("core::panicking::") or c.startswith("std::panicking::") or e.get("ty") == "!":
            raise _Panic()
        if c in ("core::cmp::max", "core::cmp::Ord::max", "core::cmp::min", "core::cmp::Ord::min") and len(args) == 2:
            a, b = self.const(self.ev(args[0], env)), self.const(self.ev(args[1], env))
            if a is None or b is None:
                raise Abstain("max / min of symbols")
            return ("s", Frac(max(a, b) if short == "max" else min(a, b)))
        cal = e.get("callee") or {}
        if cal.get("resolved_local"):
            b = self.facts.body(cal.get("resolved"))
            if b is not None:
                return self.run(b, [self.ev(a, env) for a in args])
        raise Abstain("call of %s" % c)


IT_ = "core::iter::traits::iterator::Iterator::"


def r41_multi_index(facts):
    """MULTI-INDEX: for every rank 1..4 and every pattern of unit dimensions, the flat index computed from a full multi-index is the row-major position sum_k i_k * prod_{j>k} d_j (the fold is evaluated on symbolic lists of known length in an exact algebra)"""
    c = Ctx("R41", facts, "multi-index -> flat index is the row-major position for ranks 1..4 and all unit-dimension patterns")
    fns = [b for b in facts.fns() if (b.get("inputs") or []) == ["&[usize]", "&[usize]"] and b.get("output") == "usize"]
    c.floor("multi-index flattening functions (&[usize], &[usize]) -> usize", len(fns), 1)
    impls = [b for b in facts.fns() if b.get("impl_trait_def") == "core::ops::index::Index" and b.get("impl_self") == ARRAY
             and (b.get("inputs") or []) == ["&" + ARRAY, "alloc::vec::Vec<usize>"]]
    c.floor("Index<Vec<usize>> implementations for Array", len(impls), 1)
    for b in fns + impls:
        name = b.get("name") if b in fns else "Index<Vec<usize>>"
        is_impl = b not in fns
        where = "%s:%d" % (F.rel(b["file"]), b["sp"][0])
        n_ok = 0
        bad = None
        unk = None
        for rank in (1, 2, 3, 4):
            for units in itertools.product((False, True), repeat=rank):
                idx = [("s", Frac(0) if u else Frac(Poly.atom("i%d" % k))) for k, u in enumerate(units)]
                dims = [("s", Frac(1) if u else Frac(Poly.atom("d%d" % k))) for k, u in enumerate(units)]
                want = Frac(0)
                for k in range(rank):
                    term = idx[k][1]
                    for j in range(k + 1, rank):
                        term = term * dims[j][1]
                    want = want + term
                try:
                    if is_impl:
                        got = ListEval(facts).run(b, [("obj", {"dimensions": ("lst", dims), "values": ("vals",)}), ("lst", idx)])
                        if got[0] != "elem":
                            raise Abstain("the result is not an element of the value buffer (%s)" % got[0])
                        got = ("s", got[1])
                    else:
                        got = ListEval(facts).run(b, [("lst", idx), ("lst", dims)])
                    if got[0] != "s":
                        raise Abstain("result is %s" % got[0])
                    if got[1].equals(want):
                        n_ok += 1
                    elif bad is None:
                        bad = (rank, units, got[1], want)
                except (Abstain, Unsupported, RecursionError) as ex:
                    if unk is None:
                        unk = (rank, units, str(ex))
        inst = "flat-index:%s" % name
        if bad is not None:
            shape = ["1" if u else "d%d" % k for k, u in enumerate(bad[1])]
            c.bad(inst, where, "for rank %d with dimensions [%s] the flat index is %r, but the row-major position is %r" % (bad[0], ", ".join(shape), bad[2], bad[3]))
        elif unk is not None:
            c.unk(inst, where, "the index computation is outside the list evaluator (rank %d: %s)" % (unk[0], unk[2]))
        else:
            c.ok(inst, where, "row-major position for all %d (rank, unit-dimension pattern) cases of ranks 1..4" % n_ok)
    # ---- a position outside the buffer is refused: the element is read with a panicking index, not with a defaulting accessor
    all_impls = [b for b in facts.fns() if b.get("impl_trait_def") in ("core::ops::index::Index", "core::ops::index::IndexMut") and b.get("impl_self") == ARRAY]
    for b in all_impls:
        where = "%s:%d" % (F.rel(b["file"]), b["sp"][0])
        inst = "refuses:%s<%s>" % (b["impl_trait_def"].rsplit("::", 1)[-1], (b.get("inputs") or ["", "?"])[-1].replace("alloc::vec::", ""))
        soft = None
        hard = 0
        for nb in facts.nested(b):
            for x in walk(facts.root(nb)):
                if x.get("k") == "Index" or (x.get("k") == "Call" and callee(x) in ("core::ops::index::Index::index", "core::ops::index::IndexMut::index_mut")):
                    hard += 1
                if x.get("k") == "Call" and (callee(x) or "").rsplit("::", 1)[-1] in ("unwrap_or", "unwrap_or_else", "unwrap_or_default", "map_or", "map_or_else", "get_unchecked", "get_unchecked_mut") \
                        and x.get("args"):
                    recv = x["args"][0]
                    viaget = callee(x).endswith(("get_unchecked", "get_unchecked_mut")) or any(
                        y.get("k") == "Call" and (callee(y) or "").rsplit("::", 1)[-1] in ("get", "get_mut", "first", "last", "nth") for y in walk(recv))
                    reads_values = any(y.get("k") == "Field" and y.get("adt") == ARRAY and y.get("name") == "values" for y in walk(recv)) or \
                        any(y.get("k") == "Call" and resolved(y) == "corgi::array::Array::values" for y in walk(recv))
                    if viaget and reads_values:
                        soft = x
        if soft is not None:
            c.bad(inst, F.loc(b, soft), "the element is read with `%s`: a position outside the value buffer yields a made-up element instead of being refused" % show(soft)[:70])
        elif hard:
            c.ok(inst, where, "the element is read with a panicking index (%d index expression(s)); no defaulting accessor on the value buffer" % hard, nontrivial=False)
        else:
            c.unk(inst, where, "no index expression found in this implementation (element read in a form this clause does not read)")
    return c


# ====================================================================================== the additive term covers the output group

class _ItAbstain(Exception):
    pass


def r49_addend_coverage(facts):
    """ADDEND-COVERAGE: before the product is accumulated, the output group (rows x cols values) is pre-set from the additive term for every admitted shape of the term - a single value, one row [cols], or a full [rows, cols] block: the iterator pipeline that copies it writes rows x cols elements in each case (iterator lengths computed from the adaptors, nothing is run)"""
    from .shape_rules import find_product_ctor
    from .facts import is_sliced_closure
    c = Ctx("R49", facts, "matrix product: the additive term is copied over the whole output group for each of its admitted shapes")
    ctors = find_product_ctor(facts)
    c.floor("operation constructors taking two (array, transpose) pairs", len(ctors), 1)
    IT_ = "core::iter::traits::iterator::Iterator::"
    INF = float("inf")
    for b in ctors:
        name = b.get("name")
        where0 = "%s:%d" % (F.rel(b["file"]), b["sp"][0])
        closures = [nb for nb in facts.nested(b) if nb is not b and is_sliced_closure(nb, facts)]
        fl = facts.float or "f64"
        done = False
        for nb in closures:
            cps = [p for p in facts.params(nb) if p.get("pat")]
            if len(cps) < 2 or cps[0]["pat"].get("k") != "Binding" or cps[1]["pat"].get("k") != "Binding":
                continue
            outv, arrv = cps[0]["pat"]["v"], cps[1]["pat"]["v"]
            root = facts.root(nb)
            # the kernel call's (rows, cols, inner) triple names the extents
            rows_v = cols_v = None
            for n in walk(root):
                if n.get("k") == "Call" and (n.get("callee") or {}).get("resolved_local"):
                    for a in n["args"]:
                        a0 = strip(a)
                        if isinstance(a0, dict) and a0.get("k") == "Tuple" and a0.get("ty") == "(usize, usize, usize)":
                            rows_v, cols_v = F.var_of(a0["fields"][0]), F.var_of(a0["fields"][1])
            lets = {}
            for n in walk(root):
                if n.get("k") == "Block":
                    for st in n["stmts"]:
                        if st["s"] == "let" and st["pat"].get("k") == "Binding" and st.get("init") is not None:
                            lets[st["pat"]["v"]] = st["init"]
            # statements that copy from arrays[2] into the output slice
            sites = []
            for n in walk(root):
                if n.get("k") == "Call" and callee(n) == IT_ + "for_each" and len(n["args"]) == 2:
                    mentions_out = any(x.get("k") in ("VarRef", "UpvarRef") and x["v"] == outv for x in walk(n["args"][0]))
                    mentions_c = any(x.get("k") == "Index" and F.var_of(x["e"]) == arrv and lit_value(x["i"]) == 2 for x in walk(n["args"][0]))
                    if mentions_out and mentions_c:
                        sites.append(n)
            uses_c = any(x.get("k") == "Index" and F.var_of(x["e"]) == arrv and lit_value(x["i"]) == 2 for x in walk(root))
            if not uses_c:
                continue
            done = True
            inst = "addend:%s" % name
            if len(sites) != 1 or rows_v is None or cols_v is None:
                c.unk(inst, F.loc(nb, root), "how the additive term is copied into the output group is not an iterator pipeline this clause reads (%d candidate statements)" % len(sites))
                continue
            site = sites[0]

            def num(e, env, depth=0):
                e = strip(e)
                if not isinstance(e, dict) or depth > 10:
                    raise _ItAbstain("number")
                k = e.get("k")
                if k == "Literal":
                    v = lit_value(e)
                    if isinstance(v, int) and not isinstance(v, bool):
                        return v
                    raise _ItAbstain("literal")
                if k in ("VarRef", "UpvarRef"):
                    if e["v"] == rows_v:
                        return env["rows"]
                    if e["v"] == cols_v:
                        return env["cols"]
                    if e["v"] in lets:
                        return num(lets[e["v"]], env, depth + 1)
                    raise _ItAbstain("variable %s" % e["v"].split("#")[0])
                if k in ("Borrow", "Deref", "Use", "Cast"):
                    return num(e["e"], env, depth + 1)
                if k == "Binary" and e.get("op") in ("Add", "Sub", "Mul", "Div"):
                    l, r = num(e["l"], env, depth + 1), num(e["r"], env, depth + 1)
                    if e["op"] == "Div":
                        if r == 0:
                            raise _ItAbstain("division by zero")
                        return l // r
                    return {"Add": l + r, "Sub": l - r, "Mul": l * r}[e["op"]]
                if k == "Call" and callee(e) in ("core::slice::<impl [T]>::len", "alloc::vec::Vec::<T, A>::len") and e["args"]:
                    sl = it(e["args"][0], env, depth + 1)
                    if sl[0] == "slice":
                        return sl[2]
                raise _ItAbstain("number `%s`" % show(e)[:40])

            def it(e, env, depth=0):
                """('slice', src, len) | ('it', src, count, size) | ('zip', a, b)"""
                e = strip(e)
                if not isinstance(e, dict) or depth > 14:
                    raise _ItAbstain("iterator")
                k = e.get("k")
                if k in ("VarRef", "UpvarRef"):
                    if e["v"] == outv:
                        return ("slice", "out", env["rows"] * env["cols"])
                    if e["v"] in lets:
                        return it(lets[e["v"]], env, depth + 1)
                    raise _ItAbstain("variable %s" % e["v"].split("#")[0])
                if k in ("Borrow", "Deref", "Use"):
                    return it(e["e"], env, depth + 1)
                if k == "Index" and F.var_of(e["e"]) == arrv:
                    if lit_value(e["i"]) == 2:
                        return ("slice", "c", env["lc"])
                    raise _ItAbstain("another operand slice")
                if k != "Call" or not e["args"]:
                    raise _ItAbstain("expression `%s`" % show(e)[:40])
                cn = callee(e) or ""
                tail = cn.rsplit("::", 1)[-1]
                if cn in ("core::ops::deref::Deref::deref", "core::ops::deref::DerefMut::deref_mut", "core::ops::index::Index::index") and tail != "index":
                    return it(e["args"][0], env, depth + 1)
                if cn == "core::ops::index::Index::index" and len(e["args"]) == 2 and F.var_of(e["args"][0]) == arrv:
                    if lit_value(e["args"][1]) == 2:
                        return ("slice", "c", env["lc"])
                    raise _ItAbstain("another operand slice")
                a0 = it(e["args"][0], env, depth + 1)
                if tail in ("iter", "iter_mut", "into_iter") and a0[0] == "slice":
                    return ("it", a0[1], a0[2], 1)
                if tail in ("into_iter", "copied", "cloned", "rev", "by_ref", "enumerate", "peekable", "fuse") and a0[0] in ("it", "zip"):
                    return a0
                if tail in ("chunks_exact", "chunks_exact_mut") and a0[0] == "slice" and len(e["args"]) == 2:
                    n_ = num(e["args"][1], env)
                    if n_ <= 0:
                        raise _ItAbstain("chunk size 0")
                    return ("it", a0[1], a0[2] // n_, n_)
                if tail in ("chunks", "chunks_mut") and a0[0] == "slice" and len(e["args"]) == 2:
                    n_ = num(e["args"][1], env)
                    if n_ <= 0 or a0[2] % n_ != 0:
                        raise _ItAbstain("chunks with a partial last chunk")
                    return ("it", a0[1], a0[2] // n_, n_)
                if tail == "cycle" and a0[0] == "it":
                    return ("it", a0[1], INF if a0[2] > 0 else 0, a0[3])
                if tail == "take" and a0[0] in ("it",) and len(e["args"]) == 2:
                    return ("it", a0[1], min(a0[2], num(e["args"][1], env)), a0[3])
                if tail == "skip" and a0[0] == "it" and len(e["args"]) == 2:
                    return ("it", a0[1], max(0, a0[2] - num(e["args"][1], env)), a0[3])
                if tail == "zip" and len(e["args"]) == 2:
                    b0 = it(e["args"][1], env, depth + 1)
                    if b0[0] == "slice":
                        b0 = ("it", b0[1], b0[2], 1)
                    if a0[0] == "slice":
                        a0 = ("it", a0[1], a0[2], 1)
                    return ("zip", a0, b0)
                raise _ItAbstain("adaptor `%s`" % tail)

            def count_of(x):
                if x[0] == "zip":
                    return min(count_of(x[1]), count_of(x[2]))
                return x[2]

            def out_size(x):
                if x[0] == "zip":
                    return out_size(x[1]) or out_size(x[2])
                return x[3] if x[1] == "out" else None

            # the closure must store into the output side
            clo = strip(site["args"][1])
            cb = facts.body(clo["closure"]) if isinstance(clo, dict) and clo.get("k") == "Closure" else None
            writes = False
            if cb is not None:
                for n in walk(facts.root(cb)):
                    if n.get("k") in ("Assign",) and strip(n["l"]).get("k") == "Deref":
                        writes = True
                    if n.get("k") == "Call" and (callee(n) or "").rsplit("::", 1)[-1] in ("copy_from_slice", "clone_from_slice"):
                        writes = True
            if not writes:
                c.unk(inst, F.loc(nb, site), "the copying closure is not a plain store / copy_from_slice")
                continue
            short = None
            why = None
            # conditions between the closure's entry and the copy: a captured Boolean ("a term was given") is true here; anything about the
            # term's slice is evaluated for the shape at hand
            site_ctx = None
            for n_, ctx_ in F.walk_ctx(root):
                if n_ is site:
                    site_ctx = ctx_

            def cond_val(e, env, depth=0):
                e = strip(e)
                if not isinstance(e, dict) or depth > 8:
                    raise _ItAbstain("condition")
                k = e.get("k")
                if k in ("VarRef", "UpvarRef") and (e.get("ty") or "") == "bool":
                    return True
                if k == "Literal" and isinstance(lit_value(e), bool):
                    return lit_value(e)
                if k == "LogicalOp":
                    a = cond_val(e["l"], env, depth + 1)
                    if e["op"] == "And" and not a:
                        return False
                    if e["op"] == "Or" and a:
                        return True
                    return cond_val(e["r"], env, depth + 1)
                if k == "Unary" and e.get("op") == "Not":
                    return not cond_val(e["e"], env, depth + 1)
                if k == "Binary" and e.get("op") in ("Eq", "Ne", "Lt", "Le", "Gt", "Ge"):
                    a, b_ = num(e["l"], env), num(e["r"], env)
                    return {"Eq": a == b_, "Ne": a != b_, "Lt": a < b_, "Le": a <= b_, "Gt": a > b_, "Ge": a >= b_}[e["op"]]
                raise _ItAbstain("condition `%s`" % show(e)[:40])
            try:
                for rows_ in (1, 2, 3):
                    for cols_ in (1, 2, 3):
                        for lc in sorted({1, cols_, rows_ * cols_}):
                            env = {"rows": rows_, "cols": cols_, "lc": lc}
                            reached = True
                            for cond_, truth_ in (F.path_facts(site_ctx) if site_ctx is not None else []):
                                if cond_val(cond_, env) != truth_:
                                    reached = False
                            if not reached:
                                if short is None:
                                    short = (rows_, cols_, lc, 0)
                                continue
                            pipe = it(site["args"][0], env)
                            cnt, sz = count_of(pipe), out_size(pipe)
                            if sz is None:
                                raise _ItAbstain("the output slice is not one side of the pipeline")
                            written = cnt * sz
                            if written != rows_ * cols_ and short is None:
                                short = (rows_, cols_, lc, written)
            except _ItAbstain as ex:
                why = str(ex)
            if why is not None:
                c.unk(inst, F.loc(nb, site), "the pipeline copying the additive term is outside the iterator model (%s)" % why)
            elif short is not None:
                r_, c_, l_, w_ = short
                c.bad(inst, F.loc(nb, site), "for a %d x %d output group and an additive term of %d value%s the copying pipeline writes %s of the %d output elements: the term is "
                      "%s for that shape (every admitted shape - a single value, one row, a full block - must be broadcast over the whole group)"
                      % (r_, c_, l_, "" if l_ == 1 else "s", "none" if w_ == 0 else w_, r_ * c_, "silently dropped" if w_ == 0 else "only partly applied"))
            else:
                c.ok(inst, F.loc(nb, site), "the copying pipeline writes rows x cols elements for a single-value, a one-row and a full-block additive term (groups up to 3 x 3)")
        if not done:
            c.unk("addend:%s" % name, where0, "no use of the additive term's slice found in the product's slice closure")
        _addend_validity(facts, c, b)
    return c


def _addend_validity(facts, c, b):
    """which shapes of the additive term the product admits: a single value, or last dimension = cols and (rank 1, or second-last dimension 1 or rows)"""
    from .config_rules import _panics
    name = b.get("name")
    where0 = "%s:%d" % (F.rel(b["file"]), b["sp"][0])
    root = facts.root(b)
    ps = [p for p in facts.params(b) if p.get("pat")]
    cparam = [p["pat"].get("v") for p in ps if (p.get("ty") or "").startswith("core::option::Option<&" + ARRAY)]
    lets = {}
    for n in walk(root):
        if n.get("k") == "Block":
            for st in n["stmts"]:
                if st["s"] == "let" and st["pat"].get("k") == "Binding" and st.get("init") is not None:
                    lets[st["pat"]["v"]] = st["init"]
    # the variables that hold rows / cols: the kernel call's triple
    rows_v = cols_v = None
    for nb in facts.nested(b):
        for n in walk(facts.root(nb)):
            if n.get("k") == "Tuple" and n.get("ty") == "(usize, usize, usize)" and len(n["fields"]) == 3:
                rows_v, cols_v = F.var_of(n["fields"][0]), F.var_of(n["fields"][1])
    # bindings of the Some(c) payload
    cvars = set()
    for n in walk(root):
        if n.get("k") == "Let" or n.get("k") == "Match":
            scr = n["e"] if n.get("k") == "Let" else n["scrutinee"]
            if F.var_of(peel(scr)) in cparam:
                pats = [n["pat"]] if n.get("k") == "Let" else [a["pat"] for a in n["arms"]]
                for pt in pats:
                    for v, _, ty, _ in F.pat_bindings(pt):
                        cvars.add(v)
    asserts = []
    for n, ctx in F.walk_ctx(root):
        if n.get("k") == "If" and n.get("else") is None and _panics(n["then"]):
            mentions = False
            todo = [n["cond"]]
            seen = set()
            while todo:
                e_ = todo.pop()
                for x in walk(e_):
                    if x.get("k") in ("VarRef", "UpvarRef"):
                        if x["v"] in cvars:
                            mentions = True
                        elif x["v"] in lets and x["v"] not in seen:
                            seen.add(x["v"])
                            todo.append(lets[x["v"]])
            if mentions:
                asserts.append((n, ctx))
    inst = "addend-shapes:%s" % name
    if not cparam or rows_v is None or cols_v is None or not cvars:
        c.unk(inst, where0, "the additive term / the output extents are not bound in a recognised form")
        return
    if not asserts:
        # moved into a helper?  a crate-local function that receives the term (or the option) and can refuse
        helper = None
        for n in walk(root):
            if n.get("k") == "Call" and (n.get("callee") or {}).get("resolved_local") and any(
                    x.get("k") in ("VarRef", "UpvarRef") and (x["v"] in cvars or x["v"] in cparam) for a in n["args"] for x in walk(a)):
                hb = facts.body(resolved(n))
                if hb is not None and hb.get("thir") and any(y.get("k") == "If" and _panics(y["then"]) for nb in facts.nested(hb) for y in walk(facts.root(nb))):
                    helper = hb
        if helper is not None:
            c.unk(inst, where0, "the additive term's dimensions are examined in a helper function (%s): which shapes it admits is not evaluated" % helper.get("name"))
        else:
            c.bad(inst, where0, "no assertion examines the additive term's dimensions: a term that does not broadcast to [rows, cols] is accepted and copied cyclically")
        return

    class _U(Exception):
        pass

    def num(e, env, depth=0):
        e = strip(e)
        if not isinstance(e, dict) or depth > 14:
            raise _U("expr")
        k = e.get("k")
        if k == "Literal":
            v = lit_value(e)
            if isinstance(v, (int, bool)):
                return v
            raise _U("literal")
        if k in ("VarRef", "UpvarRef"):
            if e["v"] == rows_v:
                return env["rows"]
            if e["v"] == cols_v:
                return env["cols"]
            if e["v"] in lets:
                return num(lets[e["v"]], env, depth + 1)
            raise _U("variable %s" % e["v"].split("#")[0])
        if k in ("Borrow", "Deref", "Use", "Cast"):
            return num(e["e"], env, depth + 1)
        if k == "Block" and e.get("e") is not None and not e["stmts"]:
            return num(e["e"], env, depth + 1)
        if k == "Call" and e["args"] and (callee(e) or "").rsplit("::", 1)[-1] == "len":
            r_, ch = F.field_chain(e["args"][0])
            if F.var_of(r_) in cvars and ch == ["dimensions"]:
                return len(env["dims"])
            if F.var_of(r_) in cvars and ch == ["values"]:
                n_ = 1
                for d in env["dims"]:
                    n_ *= d
                return n_
            raise _U("len")
        ix = _as_index(e)
        if ix is not None:
            r_, ch = F.field_chain(ix["e"])
            if F.var_of(r_) in cvars and ch == ["dimensions"]:
                i = num(ix["i"], env, depth + 1)
                if not (0 <= i < len(env["dims"])):
                    raise IndexError
                return env["dims"][i]
            raise _U("index")
        if k == "Binary":
            op = e["op"]
            a = num(e["l"], env, depth + 1)
            b_ = num(e["r"], env, depth + 1)
            if op == "Sub" and a - b_ < 0:
                raise IndexError      # usize underflow: a panic
            return {"Add": a + b_, "Sub": a - b_, "Mul": a * b_, "Eq": a == b_, "Ne": a != b_, "Lt": a < b_, "Le": a <= b_, "Gt": a > b_, "Ge": a >= b_}[op]
        if k == "LogicalOp":
            a = num(e["l"], env, depth + 1)
            if e["op"] == "And" and not a:
                return False
            if e["op"] == "Or" and a:
                return True
            return bool(num(e["r"], env, depth + 1))
        if k == "Unary" and e.get("op") == "Not":
            return not num(e["e"], env, depth + 1)
        if k == "Let":
            return True         # `if let Some(c) = c`: the term is present in this evaluation
        raise _U("expression `%s`" % show(e)[:40])
    wrong = None
    why = None
    for rows_ in (2, 3):
        for cols_ in (2, 3):
            shapes = [[1], [cols_], [5], [1, 1], [1, cols_], [rows_, cols_], [rows_, 1], [5, cols_], [rows_, 5], [1, 5], [1, 1, cols_], [1, rows_, cols_], [1, 5, cols_]]
            for dims in shapes:
                n_ = 1
                for d in dims:
                    n_ *= d
                want = n_ == 1 or (dims[-1] == cols_ and (len(dims) < 2 or dims[-2] in (1, rows_)))
                env = {"rows": rows_, "cols": cols_, "dims": dims}
                refused = False
                try:
                    for n, ctx in asserts:
                        reached = True
                        for cond, truth in F.path_facts(ctx):
                            if bool(num(cond, env)) != truth:
                                reached = False
                                break
                        if reached and num(n["cond"], env):
                            refused = True
                except IndexError:
                    refused = True
                except _U as ex:
                    why = str(ex)
                    break
                if refused == want and wrong is None:
                    wrong = (rows_, cols_, dims, refused)
            if why:
                break
        if why:
            break
    if why:
        c.unk(inst, where0, "the assertion on the additive term is outside the evaluator (%s)" % why)
    elif wrong:
        r_, c_, d_, ref = wrong
        c.bad(inst, F.loc(b, asserts[0][0]), "for a %d x %d product an additive term of dimensions %s is %s, but %s: the admitted shapes are a single value, [cols], [1, cols] and [rows, cols]"
              % (r_, c_, d_, "refused" if ref else "accepted", "it broadcasts over the rows and must be accepted" if ref else "it does not broadcast to the product and must be refused"))
    else:
        c.ok(inst, F.loc(b, asserts[0][0]), "the additive term is admitted exactly when it is a single value or ends in [cols], [1, cols] or [rows, cols] (13 shapes x 4 output sizes)")
