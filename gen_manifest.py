#!/usr/bin/env python3
"""Generates MANIFEST.json from the rule registry (so that it can never drift from what ./check implements)."""
import json, os, sys
HERE = os.path.dirname(os.path.abspath(__file__))
sys.path.insert(0, HERE)
from rules import registry as REG

TECH = {
 "C01": "static analysis: THIR/MIR rules over the autograd engine and all backward closures (slot arity+gating, Boolean evaluation of every attach guard incl. the attach primitives, shared-slot clone provenance, counter-guard control dependence, shape typestate, additive merge); composite operations read in an exact algebra: no dependence on an operand through a number taken out of the graph (derivative with respect to the extracted number identically zero)",
 "C02": "static analysis: parameter-dependence taint, linearity type system and accumulate-on-scatter rule over every backward closure; adjointness of the convolution's scatter / gather kernels as index polynomials (symbolic div / mod simplification); symbolic differentiation of every element-wise forward map compared with its backward slot in an exact rational-function algebra (sibling cross-check, nothing executed); symbolic shape type system for the matrix product's deltas and for single-operand sliced_op calls under all transposition flags; axis (units-of-measure) type system for the convolution index arithmetic and sibling agreement of the window-count formula; reduce-last rule (THIR via rustc_private driver); piecewise derivatives compared interval by interval; narrowing casts and integer division are opaque functions; derivative of a sliced_op constructor walks back at the forward call's slice depth",
 "C03": "static analysis: shape typestate over the engine's delta/gradient sinks (THIR dataflow); shape contract on a finite grid: the operation's source evaluated in its shape slice (abstract interpretation: dimensions, ranks, counts and flags concrete, element data abstracted) refuses exactly the inadmissible shapes and returns the documented dimensions",
 "C04": "static analysis: structural reading of the broadcast-shape function (pairing direction; refusal condition and stored value decided on the finite grid of orderings), forward maps of the element-wise operators in an exact algebra, alignment-consistency (contradiction) rule over every place where sliced_op matches operand dimensions against the target; provenance of the dimensions of every value the combinator returns; shape contract on a finite grid: the operation's source evaluated in its shape slice (abstract interpretation: dimensions, ranks, counts and flags concrete, element data abstracted) refuses exactly the inadmissible shapes and returns the documented dimensions; array-building code never pairs the raw buffers of two different arrays without established equal dimensions",
 "C05": "static analysis: load / store indices of the matrix-product kernel translated from THIR into integer polynomials (lets resolved, flag conditionals folded per assignment) and compared with the row-major positions of op(A)[r,k], op(B)[k,j], C[r,j]; symbolic evaluation of the dimension reads under each transposition assignment; the compatibility assertion evaluated for every pair of ranks at which both inner dimensions exist (reached, not escaped); provenance of the broadcast target dimensions for every pair of ranks; alignment consistency of the slice walk the batched product goes through; iterator-length model of the pipeline that copies the additive term; the multi-index fold; shape contract on a finite grid: the operation's source evaluated in its shape slice (abstract interpretation: dimensions, ranks, counts and flags concrete, element data abstracted) refuses exactly the inadmissible shapes and returns the documented dimensions",
 "C06": "static analysis: load / store indices of im2col and of the output transposition as integer polynomials (running counters as affine functions of the loop indices: rank of the common loops times the update's inner iterations) compared with the documented sliding-window positions; axis (units-of-measure) typing and window-count formula agreement; shape contract on a finite grid: the operation's source evaluated in its shape slice (abstract interpretation: dimensions, ranks, counts and flags concrete, element data abstracted) refuses exactly the inadmissible shapes and returns the documented dimensions",
 "C07": "static analysis: forward maps of the point-wise functions, softmax, sum_all and reshape translated from THIR into an exact rational-function algebra and compared with the documented definitions; constructor funnel for reshape's refusal; shape contract on a finite grid: the operation's source evaluated in its shape slice (abstract interpretation: dimensions, ranks, counts and flags concrete, element data abstracted) refuses exactly the inadmissible shapes and returns the documented dimensions",
 "C08": "static analysis: type walk for interior mutability, unsafe scan, MIR place-context scan for writes/mutable borrows, public-API signature scan, destructor scan, inventory of stores through `&mut Array` (only Optimizer::update re-seats a handle)",
 "C09": "static analysis: exhaustive Boolean evaluation of every constructor's attach guard, slot gating, flag-writer inventory and stop/restore pairing, consumer-count descent only through tracked children, no operation of several operands returns one of them; the seed of a pass is never marked tracked; the consumer counting does not depend on a node's own flags",
 "C10": "static analysis: engine-state layering (who touches counters/deltas/gradients), take-only delta reads, additive accumulate arms",
 "C11": "static analysis: slot arity and gating of every derivative closure including its early returns; single invocation site of the derivative closure and control dependence of counting/recursion on the shared consumer counter",
 "C12": "static analysis: field-by-field provenance of Clone, MIR scan for re-seated shared slots, who-may-write rule for the per-node slots shared by clones, children-by-clone at every attachment site, destructor scan, equality field set",
 "C13": "static analysis: the element-wise store of update read in an exact algebra (old - rate x gradient) and provenance of the rate field in every constructor; dataflow of the value stored over each parameter in Optimizer::update (fresh constructor, same dimensions, tracked) and order/subset agreement of its producer and consumer traversals; no call in update that needs unique ownership of a buffer; per-parameter gating of the write-back (presence of a gradient, never its values), flat buffers filled and drained at the same filter stage",
 "C14": "static analysis: provenance of the parameters installed by update, optimizer state inventory (interior mutability), retained-slot / static inventory of Model, layers and optimizers, consumer-count protocol, slot gating of every derivative closure (a tracked operand always receives its slot) and engine-state layering (no counter residue between passes)",
 "C15": "static analysis: cost closures, Layer::forward implementations and Model::forward/backward translated from THIR into an exact algebra with uninterpreted function symbols and compared with the documented formulas; structural composition-order check of the layer loop; axis typing of the (rows, cols) pairs stored by layer constructors; configuration handed to a layer constructor stored as given, component by component; who-may-write rule for the model's stored output (not backward / update)",
 "C16": "static analysis: constructor funnel + dominating assertions, no later write (MIR), equality reads exactly dimensions and values and compares the elements as numbers (no conversion on the way); the multi-index fold evaluated on symbolic lists (ranks 1..4, all unit-dimension patterns) and compared with the row-major polynomial; approximate comparisons use every tolerance they receive in its position; comparisons of a part of a field are not equality of the field; shape contract on a finite grid: the operation's source evaluated in its shape slice (abstract interpretation: dimensions, ranks, counts and flags concrete, element data abstracted) refuses exactly the inadmissible shapes and returns the documented dimensions",
 "C17": "static analysis: linearity type system (Z/L/C/N) over backward closures and the engine's delta path; default-seed provenance; a supplied seed reaches the pass on every match arm",
 "C18": "static analysis: ownership-edge inventory over ADT field types, MIR writers of the edge list, closure captures, retained slots, Boolean evaluation of every attach guard (untracked operands record nothing); the seed of a pass is never marked tracked (gradients hold no graph)",
 "C19": "static analysis: body-by-body MIR comparison of the default and f32 builds with the float width erased; scan for width-characteristic constants, float-dependent refusals and float-to-integer conversions; rule results compared across configurations",
}
NOTE = {p: "Trusted: rustc front end/type+borrow checker, std Rc/Cell/RefCell contracts, the driver and rule code; BLAS configurations not analysed; unwinding ignored. "
           + ("Whole-property argument in DESIGN.md section 4 (C08)." if p == "C08" else "Decides the named structural clauses only (DESIGN.md section 4), not the numeric behaviour.")
        for p in TECH}
NA = [
]

def implemented(p):
    return all(REG.RULES.get(r) is not None or r == "R19" for r in REG.PROPERTY_RULES[p]) and (p != "C19" or os.path.exists(os.path.join(HERE, "rules", "config_rules.py")))

checks = []
na = [{"property_id": p, "reason": r} for p, r in NA]
for p in sorted(REG.PROPERTY_RULES):
    if not implemented(p):
        na.append({"property_id": p, "reason": "check under construction in this framework (rules %s; see DESIGN.md section 4) - not claimed until every rule is armed" % ",".join(REG.PROPERTY_RULES[p])})
        continue
    checks.append({
        "property_id": p,
        "quick_cmd": "./check %s --tier quick" % p,
        "thorough_cmd": "./check %s --tier thorough" % p,
        "evidence_file": "/verif/evidence/%s.json" % p,
        "replay_cmd_template": "./check %s --replay {path}" % p,
        "engine": "corgi-facts+rules",
        "level_claimed": {"category": REG.LEVEL[p], "text": REG.EXPLANATION[p], "design_ref": "DESIGN.md section 4, %s" % p},
        "level_note": NOTE[p],
        "technique": TECH[p],
    })
na.sort(key=lambda x: x["property_id"])
m = {
 "version": 1,
 "setup_cmd": "./setup.sh",
 "hooks": {"guard": "corgi_verif", "enable": "none needed: static analysis reads the unmodified crate through RUSTC_WORKSPACE_WRAPPER", "baseline_off_cmd": "cd /repo && cargo test --offline", "source_commits": [], "add_only": True},
 "engines": [{"name": "corgi-facts+rules", "path": "/verif/driver + /verif/rules", "serves_properties": [c["property_id"] for c in checks],
              "kind_free_text": "rustc_private driver dumping THIR/MIR/type facts of /repo's working tree; Python rules evaluate obligations over them; compile-fail witnesses and a mutant corpus in the thorough tier"}],
 "checks": checks,
 "not_applicable": na,
 "notes": "Static analysis only: no check executes corgi code. Four genuine defects found by the rules were repaired in /repo by `fix:` commits (see known_findings.json and DESIGN.md section 5).",
}
json.dump(m, open(os.path.join(HERE, "MANIFEST.json"), "w"), indent=1)
print("claimed:", [c["property_id"] for c in checks])
print("not applicable:", [x["property_id"] for x in na])
