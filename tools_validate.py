#!/opt/veriftools/pyvenv/bin/python
"""Validate MANIFEST.json and every evidence file against the harness schemas (developer aid)."""
import json, sys, glob, jsonschema
m = json.load(open('/root/.vp/MANIFEST.schema.json'))
e = json.load(open('/root/.vp/EVIDENCE.schema.json'))
jsonschema.validate(json.load(open('/verif/MANIFEST.json')), m)
print('MANIFEST ok')
for p in sorted(glob.glob('/verif/evidence/C*.json')):
    if p.endswith('.replay.json'): continue
    jsonschema.validate(json.load(open(p)), e)
    print(p, 'ok')
