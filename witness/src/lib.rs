//! Compile-fail witnesses (and their compiling twins) for the type-level parts of C08 / C09 / C12.
//! Written as an external user of the crate would.  Run with `cargo +nightly test --doc --offline`
//! (stable ignores the error code).  A witness that *compiles* means the API now hands out what it
//! must not; a twin that does not compile only means the witness has become unusable.

/// C08: values cannot be assigned through the public accessor.
/// ```compile_fail,E0594
/// let a = corgi::array::Array::from(vec![1.0, 2.0]);
/// a.values()[0] = 3.0;
/// ```
pub fn w_c08_assign_through_values() {}

/// twin (compiled, never run)
/// ```no_run
/// let a = corgi::array::Array::from(vec![1.0, 2.0]);
/// let _v = a.values()[0];
/// ```
pub fn twin_c08_assign_through_values() {}

/// C08: the value buffer is not reachable as a field.
/// ```compile_fail,E0616
/// let mut a = corgi::array::Array::from(vec![1.0, 2.0]);
/// a.values = std::rc::Rc::new(vec![0.0, 0.0]);
/// ```
pub fn w_c08_values_field_private() {}

/// twin (compiled, never run)
/// ```no_run
/// let a = corgi::array::Array::from(vec![1.0, 2.0]);
/// let _ = a.values();
/// ```
pub fn twin_c08_values_field_private() {}

/// C08: the dimensions are not reachable as a field.
/// ```compile_fail,E0616
/// let mut a = corgi::array::Array::from(vec![1.0, 2.0]);
/// a.dimensions.push(1);
/// ```
pub fn w_c08_dimensions_field_private() {}

/// twin (compiled, never run)
/// ```no_run
/// let a = corgi::array::Array::from(vec![1.0, 2.0]);
/// let _ = a.dimensions().len();
/// ```
pub fn twin_c08_dimensions_field_private() {}

/// C08: `dimensions()` hands out a shared slice: no element can be assigned.
/// ```compile_fail,E0594
/// let a = corgi::array::Array::from(vec![1.0, 2.0]);
/// a.dimensions()[0] = 7;
/// ```
pub fn w_c08_assign_through_dimensions() {}

/// twin (compiled, never run)
/// ```no_run
/// let a = corgi::array::Array::from(vec![1.0, 2.0]);
/// let _d = a.dimensions()[0];
/// ```
pub fn twin_c08_assign_through_dimensions() {}

/// C08: indexing yields a shared reference to the element.
/// ```compile_fail,E0594
/// let a = corgi::array::Array::from(vec![1.0, 2.0]);
/// a[0] = 5.0;
/// ```
pub fn w_c08_index_assign() {}

/// twin (compiled, never run)
/// ```no_run
/// let a = corgi::array::Array::from(vec![1.0, 2.0]);
/// let _x = a[0];
/// ```
pub fn twin_c08_index_assign() {}

/// C12 / C18: handles are not `Copy` (a pending delta can only be taken, a handle is duplicated only by `clone`).
/// ```compile_fail,E0382
/// let a = corgi::array::Array::from(vec![1.0, 2.0]);
/// let b = a;
/// let c = a;
/// let _ = (b, c);
/// ```
pub fn w_c12_array_not_copy() {}

/// twin (compiled, never run)
/// ```no_run
/// let a = corgi::array::Array::from(vec![1.0, 2.0]);
/// let b = a.clone();
/// let c = a;
/// let _ = (b, c);
/// ```
pub fn twin_c12_array_not_copy() {}

/// C09 / C12: the tracking flag is private per-handle state.
/// ```compile_fail,E0616
/// let a = corgi::array::Array::from(vec![1.0, 2.0]);
/// a.is_tracked.set(true);
/// ```
pub fn w_c09_flag_field_private() {}

/// twin (compiled, never run)
/// ```no_run
/// let a = corgi::array::Array::from(vec![1.0, 2.0]);
/// let _ = a.start_tracking();
/// ```
pub fn twin_c09_flag_field_private() {}

/// C10 / C11: the consumer counter is private engine state.
/// ```compile_fail,E0616
/// let a = corgi::array::Array::from(vec![1.0, 2.0]);
/// a.consumer_count.set(3);
/// ```
pub fn w_c10_counter_field_private() {}

/// twin (compiled, never run)
/// ```no_run
/// let a = corgi::array::Array::from(vec![1.0, 2.0]);
/// a.backward(None);
/// ```
pub fn twin_c10_counter_field_private() {}
