#!/usr/bin/env python3
"""seedobs.py <seed-substr> [props...] : print violated / unclassified obligations of the seed for the props (default: target)"""
import sys, os, glob, json, shutil
sys.path.insert(0, "/verif"); sys.path.insert(0, "/verif/selftest")
from rules import facts as F, registry as REG
import mutant as M
sub = sys.argv[1]
ds = [d for d in sorted(glob.glob("/verif/seeded/*/")) if sub in d]
for sd in ds:
    meta = json.load(open(sd + "meta.json"))
    props = sys.argv[2:] or [meta["property"]]
    if props == ["all"]:
        props = sorted(REG.PROPERTY_RULES)
    d, dst = M.scratch_copy()
    try:
        M.apply_patch(dst, sd + "patch.diff")
        obs = M.evaluate(dst, props, tag="so%d" % os.getpid())
        print("==", os.path.basename(sd.rstrip("/")))
        for p, os_ in obs.items():
            for o in os_:
                if o.status != "discharged":
                    print("  ", p, o.status[:6], o.key, "|", o.why[:200])
    finally:
        shutil.rmtree(d, ignore_errors=True)
