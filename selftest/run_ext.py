#!/usr/bin/env python3
"""Evaluate every diff under selftest/benign_ext (agent-written behaviour-preserving edits)
and /verif/seeded/*/patch.diff against all claimed properties, in parallel.
    selftest/run_ext.py [benign|seeded] [--only substr]"""
import glob, json, os, sys, shutil
from concurrent.futures import ProcessPoolExecutor
HERE = os.path.dirname(os.path.abspath(__file__)); VERIF = os.path.dirname(HERE)
sys.path.insert(0, VERIF); sys.path.insert(0, HERE)
from rules import facts as F, registry as REG
import mutant as M
ALL = sorted(REG.PROPERTY_RULES)

def work(args):
    path, slot = args
    d, dst = M.scratch_copy()
    try:
        try:
            M.apply_patch(dst, path)
        except RuntimeError as e:
            return path, "stale", {}
        orig = F.extract
        def ex(config="default", repo=None, **kw):
            kw.pop("target_tag", None)
            return orig(config, repo=repo, target_tag="ext%d-%s" % (slot, config), **kw)
        F.extract = ex
        try:
            obs = M.evaluate(dst, ALL)
        except F.ExtractionError as e:
            return path, "no-compile", {}
        finally:
            F.extract = orig
        fired = {}
        for p, os_ in obs.items():
            if "--abstained" in sys.argv:
                ks = sorted({"%s [%s] %s" % (o.key, o.status[:5], o.why[:110]) for o in os_ if o.status == "unclassified"})
            else:
                ks = sorted({"%s [%s] %s" % (o.key, o.status[:5], o.why[:110]) for o in os_ if o.bad() and o.status != "unclassified"})
            if ks:
                fired[p] = ks
        return path, "ok", fired
    finally:
        shutil.rmtree(d, ignore_errors=True)

def chain(ts):
    return [work(t) for t in ts]

def main():
    which = sys.argv[1] if len(sys.argv) > 1 and not sys.argv[1].startswith("--") else "benign"
    only = sys.argv[sys.argv.index("--only") + 1] if "--only" in sys.argv else None
    if which == "benign":
        paths = sorted(glob.glob(os.path.join(HERE, "benign_ext", "*.diff")))
    else:
        paths = sorted(glob.glob(os.path.join(VERIF, "seeded", "*", "patch.diff")))
    if only:
        paths = [p for p in paths if only in p]
    jobs = 10
    chains = {}
    for i, p in enumerate(paths):
        chains.setdefault(i % jobs, []).append((p, i % jobs))
    res = []
    with ProcessPoolExecutor(max_workers=jobs) as ex:
        for f in [ex.submit(chain, c) for c in chains.values()]:
            res.extend(f.result())
    nbad = 0
    for path, st, fired in sorted(res):
        name = os.path.basename(os.path.dirname(path)) if which == "seeded" else os.path.basename(path)[:-5]
        if which == "benign":
            if st != "ok" or fired:
                nbad += 1
                print("FALSE-ALARM %s %s" % (name, st))
                seen = set()
                for p, ks in fired.items():
                    for k in ks:
                        if k not in seen:
                            seen.add(k); print("      %s: %s" % (p, k))
            else:
                print("silent      %s" % name)
        else:
            meta = json.load(open(os.path.join(os.path.dirname(path), "meta.json")))
            tgt = meta["property"]
            print("%s %s target=%s fired=%s" % ("DETECTED" if tgt in fired else ("other   " if fired else "MISSED  "), name, tgt, sorted(fired)))
    print("%d entries, %d with alarms" % (len(res), nbad) if which == "benign" else "%d seeds" % len(res))

if __name__ == "__main__":
    main()
