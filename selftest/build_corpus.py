#!/usr/bin/env python3
"""Authoring tool (not part of any check): regenerate selftest/mutants/*.diff and
selftest/benign/*.diff from corpus.py against /repo's current tree, and validate them:
a mutant must compile and make its expected obligation non-discharged; a benign edit must
compile and leave all claimed properties fully discharged.

    selftest/build_corpus.py [--tests] [--only NAME] [--jobs N]

--tests additionally runs `cargo test --offline` on each variant and records the result
in selftest/corpus_meta.json (mutants are meant to keep the pinned suite green)."""
import json
import os
import shutil
import subprocess
import sys
import tempfile
from concurrent.futures import ProcessPoolExecutor

HERE = os.path.dirname(os.path.abspath(__file__))
VERIF = os.path.dirname(HERE)
sys.path.insert(0, VERIF)
sys.path.insert(0, HERE)
import corpus as C  # noqa: E402
from rules import facts as F  # noqa: E402
from rules import registry as REG  # noqa: E402
import mutant as M  # noqa: E402

ALL_PROPS = sorted(REG.PROPERTY_RULES)


def make_variant(entry, kind):
    d, dst = M.scratch_copy()
    for ed in entry["edits"]:
        f, old, new = ed[0], ed[1], ed[2]
        cnt = ed[3] if len(ed) > 3 else 1
        p = os.path.join(dst, f)
        s = open(p).read()
        if s.count(old) != cnt:
            shutil.rmtree(d, ignore_errors=True)
            raise RuntimeError("%s: expected %d occurrence(s) of edit anchor in %s, found %d:\n%s" % (entry["name"], cnt, f, s.count(old), old[:200]))
        open(p, "w").write(s.replace(old, new))
    return d, dst


def diff_of(dst):
    files = set()
    out = []
    for root, _, fs in os.walk(dst):
        for fn in fs:
            if fn.endswith(".rs") or fn == "Cargo.toml":
                rel = os.path.relpath(os.path.join(root, fn), dst)
                a = os.path.join("/repo", rel)
                b = os.path.join(dst, rel)
                if not os.path.exists(a) or open(a).read() != open(b).read():
                    r = subprocess.run(["diff", "-u", "--label", "a/" + rel, "--label", "b/" + rel, a, b], capture_output=True, text=True)
                    out.append(r.stdout)
    return "".join(out)


def work(args):
    kind, entry, run_tests, slot = args
    name = entry["name"]
    res = {"name": name, "kind": kind}
    try:
        d, dst = make_variant(entry, kind)
    except RuntimeError as e:
        res["error"] = str(e)
        return res
    try:
        diff = diff_of(dst)
        header = "# %s corpus entry: %s\n" % (kind, name)
        if kind == "mutant":
            header += "# properties: %s\n# expect: %s\n# what: %s\n" % (",".join(entry["props"]), " | ".join(entry["expect"]), entry["what"])
        out_path = os.path.join(HERE, "mutants" if kind == "mutant" else "benign", name + ".diff")
        open(out_path, "w").write(header + diff)
        props = entry["props"] if kind == "mutant" else ALL_PROPS
        # own target dir per worker slot
        orig = F.extract

        def ex(config="default", repo=None, **kw):
            kw.pop("target_tag", None)
            return orig(config, repo=repo, target_tag="mut%d-%s" % (slot, config), **kw)
        F.extract = ex
        try:
            obs = M.evaluate(dst, props)
        except F.ExtractionError as e:
            res["compiles"] = False
            res["error"] = str(e)[-1200:]
            return res
        finally:
            F.extract = orig
        res["compiles"] = True
        fired = {}
        for p, os_ in obs.items():
            fired[p] = sorted({o.key for o in os_ if o.bad() and o.status != "unclassified"})
        res["fired"] = fired
        if kind == "mutant":
            ok = True
            for i, p in enumerate(props):
                if i == 0:
                    # the primary property must report the expected construct
                    if not any(any(exp in k for k in fired[p]) for exp in entry["expect"]):
                        ok = False
                elif not fired[p]:
                    # secondary properties must raise some alarm of their own
                    ok = False
            res["ok"] = ok
        else:
            res["ok"] = all(not v for v in fired.values())
        if run_tests:
            env = dict(os.environ, CARGO_TARGET_DIR=os.path.join(VERIF, ".cache", "tgt-tests%d" % slot), CARGO_NET_OFFLINE="true")
            r = subprocess.run(["cargo", "test", "--offline", "--lib", "-q"], cwd=dst, env=env, capture_output=True, text=True)
            res["tests_pass"] = r.returncode == 0
            tail = [l for l in r.stdout.splitlines() if l.startswith("test result")]
            res["tests"] = tail[-1] if tail else r.stderr[-300:]
        return res
    finally:
        shutil.rmtree(d, ignore_errors=True)


def main():
    run_tests = "--tests" in sys.argv
    only = sys.argv[sys.argv.index("--only") + 1] if "--only" in sys.argv else None
    jobs = int(sys.argv[sys.argv.index("--jobs") + 1]) if "--jobs" in sys.argv else 8
    tasks = []
    i = 0
    for e in C.MUTANTS:
        if only and only not in e["name"]:
            continue
        tasks.append(("mutant", e, run_tests, i % jobs))
        i += 1
    for e in C.BENIGN:
        if only and only not in e["name"]:
            continue
        tasks.append(("benign", e, run_tests, i % jobs))
        i += 1
    # tasks sharing a slot must not overlap: run slot-wise chains
    chains = {}
    for t in tasks:
        chains.setdefault(t[3], []).append(t)
    results = []
    with ProcessPoolExecutor(max_workers=jobs) as ex:
        futs = [ex.submit(run_chain, ch) for ch in chains.values()]
        for f in futs:
            results.extend(f.result())
    meta_path = os.path.join(HERE, "corpus_meta.json")
    meta = {}
    if os.path.exists(meta_path):
        meta = json.load(open(meta_path))
    bad = 0
    for r in sorted(results, key=lambda r: (r["kind"], r["name"])):
        status = "OK " if r.get("ok") else "BAD"
        if not r.get("ok"):
            bad += 1
        extra = ""
        if "tests_pass" in r:
            extra = " tests=%s" % ("pass" if r["tests_pass"] else "FAIL(%s)" % r.get("tests", ""))
        print("%s %-7s %-45s%s" % (status, r["kind"], r["name"], extra))
        if not r.get("ok"):
            print("      ", r.get("error") or json.dumps(r.get("fired"))[:1500])
        m = meta.setdefault(r["name"], {})
        m.update({k: r[k] for k in ("kind", "compiles", "ok", "tests_pass", "tests", "fired") if k in r})
    json.dump(meta, open(meta_path, "w"), indent=1, sort_keys=True)
    print("%d entries, %d bad" % (len(results), bad))
    return 1 if bad else 0


def run_chain(ch):
    return [work(t) for t in ch]


if __name__ == "__main__":
    sys.exit(main())
