#!/usr/bin/env python3
"""Classical mutation sweep (authoring / measurement tool, not part of any check).

    selftest/classical.py gen                 write /tmp/corgi-classical/mutants.json
    selftest/classical.py test  [-j N]        build + run the pinned suite on every mutant; survivors -> survivors.json
    selftest/classical.py judge [-j N]        run every claimed check on every survivor (scratch copies); -> judged.json
    selftest/classical.py report              summary by file / operator / verdict

Mutation operators are the textbook ones (relational, arithmetic, logical, constant, call / statement removal) applied to
the non-test part of src/.  A survivor is a mutant that compiles and passes all 69 lib tests and 11 doctests.  Survivors are
NOT known to violate a property (many are equivalent): the sweep shows where the checks are blind, the triage is by hand.
All scratch data lives under /tmp/corgi-classical and is safe to delete."""
import json, os, re, shutil, subprocess, sys, tempfile, time
from concurrent.futures import ProcessPoolExecutor, as_completed

HERE = os.path.dirname(os.path.abspath(__file__))
VERIF = os.path.dirname(HERE)
WORK = "/tmp/corgi-classical"
REPO = "/repo"

OPS = [
    ("rel", r"(?<![<>=!\-+*/&|])<=(?![=>])", ["<"]),
    ("rel", r"(?<![<>=!\-+*/&|\w:])<(?![=<\w:])(?= )", ["<="]),
    ("rel", r"(?<![<>=!\-+*/&|])>=(?![=>])", [">"]),
    ("rel", r"(?<= )>(?![=>])(?= )", [">="]),
    ("rel", r"==", ["!="]),
    ("rel", r"!=", ["=="]),
    ("arith", r"(?<= )\+(?= )", ["-"]),
    ("arith", r"(?<= )-(?= )", ["+"]),
    ("arith", r"(?<= )\*(?= )", ["+"]),
    ("arith", r"(?<= )/(?= )", ["*"]),
    ("arith", r"(?<= )%(?= )", ["/"]),
    ("assignop", r"\+=", ["-=", "="]),
    ("assignop", r"-=", ["+="]),
    ("logic", r"&&", ["||"]),
    ("logic", r"\|\|", ["&&"]),
    ("not", r"!(?=[a-z_(])(?!\[)", [""]),
    ("const", r"(?<![\w.])0(?![\w.])", ["1"]),
    ("const", r"(?<![\w.])1(?![\w.])", ["0", "2"]),
    ("const", r"(?<![\w.])2(?![\w.])", ["1", "3"]),
    ("const", r"(?<![\w.])3(?![\w.])", ["2"]),
    ("fconst", r"(?<![\w.])0\.0(?![\w.])", ["1.0"]),
    ("fconst", r"(?<![\w.])1\.0(?![\w.])", ["0.0", "2.0"]),
    ("fconst", r"(?<![\w.])2\.0(?![\w.])", ["1.0"]),
    ("bool", r"\btrue\b", ["false"]),
    ("bool", r"\bfalse\b", ["true"]),
    ("call", r"\.rev\(\)", [""]),
    ("call", r"\.skip\(([^()]*)\)", [""]),
    ("call", r"\.take\(([^()]*)\)", [""]),
    ("call", r"\.cycle\(\)", [""]),
    ("call", r"\.saturating_sub\(", [".wrapping_sub("]),
    ("call", r"\.tracked\(\)", ["", ".untracked()"]),
    ("call", r"\.stop_tracking\(\)", [".is_tracked.get()"]),
    ("call", r"\.is_some\(\)", [".is_none()"]),
    ("call", r"\.is_none\(\)", [".is_some()"]),
    ("call", r"\.is_empty\(\)", [".is_empty() == false"]),
    ("call", r"\ball\(", ["any("]),
    ("call", r"\bany\(", ["all("]),
    ("call", r"\bmax\(", ["min("]),
    ("swap", r"\(a, a_transpose\)", ["(a, b_transpose)"]),
    ("ident", r"\b(\w*?)rows(\w*)\b", ["{0}cols{1}"]),
    ("ident", r"\b(\w*?)cols(\w*)\b", ["{0}rows{1}"]),
    ("ident", r"\ba_(transpose|index)\b", ["b_{0}"]),
    ("ident", r"\bb_(transpose|index)\b", ["a_{0}"]),
    ("ident", r"\bis_tracked\b", ["keep_gradient"]),
    ("ident", r"\bkeep_gradient\b", ["is_tracked"]),
    ("ident", r"\bstart_tracking\b", ["stop_tracking"]),
    ("ident", r"\bstop_tracking\b", ["start_tracking"]),
    ("ident", r"\bself\.(dimensions|values)\b", ["other.{0}"]),
    ("ident", r"\bother\.(dimensions|values)\b", ["self.{0}"]),
    ("ident", r"\bx\.(dimensions|values|is_tracked)\b", ["y.{0}"]),
    ("ident", r"\by\.(dimensions|values|is_tracked)\b", ["x.{0}"]),
    ("ident", r"\ba\.(dimensions|values|is_tracked)\b", ["b.{0}"]),
    ("ident", r"\bb\.(dimensions|values|is_tracked)\b", ["a.{0}"]),
    ("ident", r"\.first\(\)", [".last()"]),
    ("ident", r"\.last\(\)", [".first()"]),
    ("ident", r"\bdelta\b", ["x"]),
    ("ident", r"\bimage_depth\b", ["filter_rows"]),
    ("ident", r"\bchild\.dimensions\b", ["self.dimensions"]),
    ("ident", r"\bSome\(([^()]*(\([^()]*\))?[^()]*)\)(?= \} else)", ["None"]),
    ("index", r"\bt\[0\]", ["t[1]"]),
    ("index", r"\bt\[1\]", ["t[0]"]),
    ("index", r"\bc\[0\]", ["c[1]"]),
    ("index", r"\bc\[1\]", ["c[0]"]),
]


def source_files():
    out = []
    for root, _, files in os.walk(os.path.join(REPO, "src")):
        for f in files:
            if f.endswith(".rs") and f not in ("blas.rs",):
                out.append(os.path.relpath(os.path.join(root, f), REPO))
    return sorted(out)


def gen():
    os.makedirs(WORK, exist_ok=True)
    muts = []
    for rel in source_files():
        text = open(os.path.join(REPO, rel)).read()
        cut = text.find("#[cfg(test)]")
        body = text if cut < 0 else text[:cut]
        offset = 0
        for ln, line in enumerate(body.split("\n"), 1):
            stripped = line.strip()
            skip = stripped.startswith("//") or stripped.startswith("#[") or stripped.startswith("use ") or "assert!(" in stripped and False
            if not skip:
                code = line.split("//")[0] if "//" in line and '"' not in line else line
                in_str = False
                for name, pat, reps in OPS:
                    for m in re.finditer(pat, code):
                        # not inside a string literal (crude: even number of quotes before)
                        if code[:m.start()].count('"') % 2 == 1:
                            continue
                        if "blas" in code and "cfg" in code:
                            continue
                        for rep in reps:
                            if "{0}" in rep or "{1}" in rep:
                                rep = rep.format(*[g or "" for g in m.groups()])
                            muts.append({"file": rel, "line": ln, "start": offset + m.start(), "end": offset + m.end(), "old": m.group(0), "new": rep, "op": name,
                                         "text": stripped[:120]})
            # statement deletion: a whole-line expression statement (method call ending in `;`)
            if re.match(r"^\s*[a-z_][\w.\[\]]*(\.|::)[\w:]+\(.*\);\s*$", line) and "let " not in line and "return" not in line:
                muts.append({"file": rel, "line": ln, "start": offset, "end": offset + len(line), "old": line, "new": "", "op": "delete", "text": stripped[:120]})
            offset += len(line) + 1
    prev = {}
    pp = os.path.join(WORK, "mutants.json")
    if os.path.exists(pp):
        for m in json.load(open(pp)):
            prev[(m["file"], m["start"], m["end"], m["new"])] = m["id"]
    nxt = max([int(v[1:]) for v in prev.values()] + [-1]) + 1
    for m in muts:
        k = (m["file"], m["start"], m["end"], m["new"])
        if k in prev:
            m["id"] = prev[k]
        else:
            m["id"] = "M%04d" % nxt
            nxt += 1
    json.dump(muts, open(pp, "w"), indent=0)
    print(len(muts), "mutants")
    by = {}
    for m in muts:
        by[m["op"]] = by.get(m["op"], 0) + 1
    print(by)


def _worker_dir(k):
    d = os.path.join(WORK, "w%d" % k)
    if not os.path.exists(d):
        os.makedirs(d)
        subprocess.check_call(["rsync", "-a", "--exclude", "target", "--exclude", ".git", REPO + "/", d + "/repo/"])
    return d


def _apply(dst, m):
    p = os.path.join(dst, m["file"])
    text = open(os.path.join(REPO, m["file"])).read()
    assert text[m["start"]:m["end"]] == m["old"], (m, text[m["start"]:m["end"]])
    open(p, "w").write(text[:m["start"]] + m["new"] + text[m["end"]:])


def _revert(dst, m):
    shutil.copy(os.path.join(REPO, m["file"]), os.path.join(dst, m["file"]))


def _test_batch(k, batch):
    d = _worker_dir(k)
    dst = os.path.join(d, "repo")
    env = dict(os.environ, CARGO_NET_OFFLINE="true", CARGO_TARGET_DIR=os.path.join(d, "target"), RUSTFLAGS="-Awarnings")
    out = []
    for m in batch:
        _apply(dst, m)
        try:
            r = subprocess.run(["cargo", "test", "--offline", "--lib", "-q"], cwd=dst, env=env, capture_output=True, text=True, timeout=180)
            if r.returncode != 0:
                verdict = "compile-error" if "error[" in r.stderr or "error:" in r.stderr and "test failed" not in r.stderr else "killed"
            else:
                r2 = subprocess.run(["cargo", "test", "--offline", "--doc", "-q"], cwd=dst, env=env, capture_output=True, text=True, timeout=300)
                verdict = "survived" if r2.returncode == 0 else "killed-doc"
        except subprocess.TimeoutExpired:
            verdict = "timeout"
        finally:
            _revert(dst, m)
        out.append((m["id"], verdict))
    return out


def test(jobs):
    muts = json.load(open(os.path.join(WORK, "mutants.json")))
    results = {}
    rp = os.path.join(WORK, "tested.json")
    if os.path.exists(rp):
        results = json.load(open(rp))
    todo = [m for m in muts if m["id"] not in results]
    print(len(todo), "to test")
    batches = [[] for _ in range(jobs)]
    for i, m in enumerate(todo):
        batches[i % jobs].append(m)
    # smaller chunks so that progress is saved
    chunks = []
    for k, b in enumerate(batches):
        for i in range(0, len(b), 10):
            chunks.append((k, b[i:i + 10]))
    # a worker dir must not be used by two processes at once: run chunk lists per worker sequentially
    per_worker = {}
    for k, ch in chunks:
        per_worker.setdefault(k, []).append(ch)
    t0 = time.time()
    with ProcessPoolExecutor(max_workers=jobs) as ex:
        futs = {ex.submit(_run_worker, k, chs): k for k, chs in per_worker.items()}
        for f in as_completed(futs):
            for mid, v in f.result():
                results[mid] = v
            json.dump(results, open(rp, "w"))
            print("worker %d done (%.0fs)" % (futs[f], time.time() - t0))
    surv = [m for m in muts if results.get(m["id"]) == "survived"]
    json.dump(surv, open(os.path.join(WORK, "survivors.json"), "w"), indent=0)
    tally = {}
    for v in results.values():
        tally[v] = tally.get(v, 0) + 1
    print(tally)


def _run_worker(k, chunks):
    out = []
    for ch in chunks:
        out.extend(_test_batch(k, ch))
    return out


def _judge_batch(k, batch):
    sys.path.insert(0, VERIF)
    sys.path.insert(0, HERE)
    import mutant as M
    from rules import registry as REG
    d = _worker_dir(k)
    dst = os.path.join(d, "repo")
    props = sorted(REG.PROPERTY_RULES)
    out = []
    for m in batch:
        _apply(dst, m)
        try:
            res = M.evaluate(dst, props, "default", tag="cl%d" % k)
            fired = {}
            abst = {}
            for p, obs in res.items():
                bad = sorted({o.key for o in obs if o.bad() and o.status != "unclassified"})
                un = sorted({o.key for o in obs if o.status == "unclassified"})
                if bad:
                    fired[p] = bad[:4]
                if un:
                    abst[p] = un[:4]
            out.append((m["id"], {"fired": fired, "abstained": abst}))
        except Exception as e:
            out.append((m["id"], {"error": repr(e)[:300]}))
        finally:
            _revert(dst, m)
    return out


def judge(jobs):
    surv = json.load(open(os.path.join(WORK, "survivors.json")))
    rp = os.path.join(WORK, "judged.json")
    results = json.load(open(rp)) if os.path.exists(rp) else {}
    todo = [m for m in surv if m["id"] not in results]
    print(len(todo), "to judge")
    per_worker = {}
    for i, m in enumerate(todo):
        per_worker.setdefault(i % jobs, []).append(m)
    t0 = time.time()
    with ProcessPoolExecutor(max_workers=jobs) as ex:
        futs = {ex.submit(_judge_batch, k, b): k for k, b in per_worker.items()}
        for f in as_completed(futs):
            for mid, v in f.result():
                results[mid] = v
            json.dump(results, open(rp, "w"))
            print("worker %d done (%.0fs)" % (futs[f], time.time() - t0))


def report():
    muts = {m["id"]: m for m in json.load(open(os.path.join(WORK, "mutants.json")))}
    tested = json.load(open(os.path.join(WORK, "tested.json")))
    judged = json.load(open(os.path.join(WORK, "judged.json"))) if os.path.exists(os.path.join(WORK, "judged.json")) else {}
    tally = {}
    for v in tested.values():
        tally[v] = tally.get(v, 0) + 1
    print("tested:", tally)
    det = [i for i, v in judged.items() if v.get("fired")]
    und = [i for i, v in judged.items() if not v.get("fired") and "error" not in v]
    err = [i for i, v in judged.items() if "error" in v]
    print("survivors judged: %d; some check fires: %d; silent: %d; errors: %d" % (len(judged), len(det), len(und), len(err)))
    if "--silent" in sys.argv or "--all" in sys.argv:
        for i in sorted(und):
            m = muts[i]
            a = judged[i].get("abstained") or {}
            print("SILENT %s %s:%d [%s] `%s` -> `%s` | %s%s" % (i, m["file"], m["line"], m["op"], m["old"].strip()[:30], m["new"][:30], m["text"][:90], ("  (abstained: %s)" % ",".join(sorted(a))) if a else ""))
    if "--fired" in sys.argv or "--all" in sys.argv:
        for i in sorted(det):
            m = muts[i]
            print("FIRED  %s %s:%d [%s] `%s` -> `%s` | %s => %s" % (i, m["file"], m["line"], m["op"], m["old"].strip()[:30], m["new"][:30], m["text"][:70], ",".join(sorted(judged[i]["fired"]))))


if __name__ == "__main__":
    cmd = sys.argv[1] if len(sys.argv) > 1 else "report"
    jobs = int(sys.argv[sys.argv.index("-j") + 1]) if "-j" in sys.argv else 12
    {"gen": gen, "test": lambda: test(jobs), "judge": lambda: judge(jobs), "report": report}[cmd]()
