"""Debug helper: facts of /repo with a diff applied (scratch copy, removed afterwards).
    from dbgfacts import with_diff;  f = with_diff(path)"""
import os, sys, shutil
HERE = os.path.dirname(os.path.abspath(__file__)); VERIF = os.path.dirname(HERE)
sys.path.insert(0, VERIF); sys.path.insert(0, HERE)
from rules import facts as F
import mutant as M


def with_diff(path, config="default"):
    d, dst = M.scratch_copy()
    try:
        M.apply_patch(dst, path)
        return F.extract(config, repo=dst, target_tag="dbg-" + config)
    finally:
        shutil.rmtree(d, ignore_errors=True)
