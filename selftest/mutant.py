#!/usr/bin/env python3
"""Apply one patch to a scratch copy of /repo (outside /repo and /verif), extract facts
from the copy and evaluate the rules of one property (or all claimed ones).

    selftest/mutant.py <patch.diff> [Cxx ...] [--config default|f32] [--show-ok]

Prints the non-discharged obligations.  The scratch copy is removed afterwards."""
import os, sys, shutil, subprocess, tempfile, json
HERE = os.path.dirname(os.path.dirname(os.path.abspath(__file__)))
sys.path.insert(0, HERE)
from rules import facts as F
from rules import registry as REG


def scratch_copy(repo="/repo"):
    d = tempfile.mkdtemp(prefix="corgi-mut-")
    dst = os.path.join(d, "repo")
    if os.environ.get("VERIF_SCRATCH_FROM_HEAD"):
        # the committed tree (used while seeded/confirm.py has /repo's working tree patched)
        os.makedirs(dst)
        ar = subprocess.Popen(["git", "-C", repo, "archive", "HEAD"], stdout=subprocess.PIPE)
        subprocess.check_call(["tar", "-x", "-C", dst], stdin=ar.stdout)
        ar.wait()
    else:
        subprocess.check_call(["rsync", "-a", "--exclude", "target", "--exclude", ".git", repo + "/", dst + "/"])
    return d, dst


def apply_patch(dst, patch):
    r = subprocess.run(["patch", "-p1", "--no-backup-if-mismatch", "-s", "-i", os.path.abspath(patch)], cwd=dst, capture_output=True, text=True)
    if r.returncode != 0:
        raise RuntimeError("patch does not apply: %s %s" % (r.stdout, r.stderr))


def evaluate(dst, props, config="default", tag="mut"):
    """-> {prop: [Ob...]} (all obligations) ; raises ExtractionError if it does not compile"""
    import importlib
    chk = {}
    facts = F.extract(config, repo=dst, target_tag=tag + "-" + config)
    # rel() strips /repo; make it strip the scratch path as well
    for b in facts.bodies:
        if b["file"].startswith(dst + "/"):
            b["file"] = b["file"][len(dst) + 1:]
    for a in facts.adts.values():
        if a["file"].startswith(dst + "/"):
            a["file"] = a["file"][len(dst) + 1:]
    for it in facts.items:
        if it["file"].startswith(dst + "/"):
            it["file"] = it["file"][len(dst) + 1:]
    sys.path.insert(0, HERE)
    import importlib.util
    spec = importlib.util.spec_from_loader("check_mod", loader=None)
    from rules.core import Ob, VIOLATED
    import traceback
    out = {}
    for p in props:
        obs = []
        if p == "C19":
            from rules import config_rules as CR
            f2 = F.extract("f32" if config == "default" else "default", repo=dst, target_tag=tag + "-" + ("f32" if config == "default" else "default"))
            fb = {config: facts, ("f32" if config == "default" else "default"): f2}
            def rr(prop, fx):
                o = []
                for r in REG.PROPERTY_RULES[prop]:
                    fn = REG.RULES.get(r)
                    if fn:
                        o.extend(fn(fx).obs)
                return o, {}, []
            obs = CR.r19_config_invariance(fb, rr).obs
            out[p] = obs
            continue
        for r in REG.PROPERTY_RULES[p]:
            fn = REG.RULES.get(r)
            if fn is None:
                continue
            try:
                obs.extend(fn(facts).obs)
            except Exception as e:
                # like ./check: a rule that crashes on novel code abstains
                obs.append(Ob(r, "analyser-crash", "-", "unclassified", "rule crashed: %r" % e, {"tb": traceback.format_exc()[-1200:]}))
        out[p] = obs
    # open known findings are reported as KNOWN-FINDING by ./check, not as violations: drop them here as well
    try:
        import json
        kf = json.load(open(os.path.join(HERE, "known_findings.json"))).get("findings", [])
    except Exception:
        kf = []
    for p in list(out):
        keys = {k["key"] for k in kf if k.get("property") == p and k.get("status") == "open"}
        if keys:
            out[p] = [o for o in out[p] if not (o.bad() and o.key in keys)]
    return out


def main():
    args = [a for a in sys.argv[1:] if not a.startswith("--")]
    config = "default"
    if "--config" in sys.argv:
        config = sys.argv[sys.argv.index("--config") + 1]
        args = [a for a in args if a != config]
    patch = args[0]
    props = args[1:] or sorted(p for p in REG.PROPERTY_RULES if all(REG.RULES.get(r) or r == "R19" for r in REG.PROPERTY_RULES[p]))
    d, dst = scratch_copy()
    try:
        apply_patch(dst, patch)
        try:
            res = evaluate(dst, props, config)
        except F.ExtractionError as e:
            print("DOES NOT COMPILE:", str(e)[-1500:])
            return 3
        fired = False
        for p, obs in res.items():
            bad = [o for o in obs if o.bad() and o.status != "unclassified"]
            seen = set()
            print("%s: %d obligations, %d not discharged" % (p, len(obs), len(bad)))
            for o in bad:
                if (o.key, o.where) in seen:
                    continue
                seen.add((o.key, o.where))
                fired = True
                print("   %s %s %s — %s" % (o.status.upper(), o.key, o.where, o.why[:300]))
        return 1 if fired else 0
    finally:
        shutil.rmtree(d, ignore_errors=True)


if __name__ == "__main__":
    sys.exit(main())
